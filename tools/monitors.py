"""Property oracles evaluated on the IMPLEMENTATION's own trace.

Each monitor is written from the text of the property (not from the model): given the
implementation's observed states, results, callback log and drop log it says where the
property itself fails.  A hit here is a concrete failing input (the case is the replay);
a model disagreement without a hit is reported as `no-failing-input-found`.
"""
import re
import struct
from collections import Counter

_list_re = re.compile(r"\[([^\]]*)\]")


def parse_list(s):
    s = s.strip()
    assert s.startswith("[") and s.endswith("]"), s
    body = s[1:-1].strip()
    if not body:
        return []
    return [tuple(int(x) for x in e.split(":")) for e in body.split(" ")]


def parse_state(comp, s):
    """-> dict(lists={name: [(k,v)...]}, caps={name: cap}, extra={...}) or None"""
    try:
        if comp in ("rawlru", "rawfrom"):
            m = re.match(r"^cap=(\d+) (\[.*\])$", s)
            return dict(lists={"lru": parse_list(m.group(2))}, caps={"lru": int(m.group(1))}, extra={})
        if comp == "slru":
            m = re.match(r"^P\{cap=(\d+) (\[.*?\])\} Q\{cap=(\d+) (\[.*?\])\}$", s)
            return dict(lists={"prob": parse_list(m.group(2)), "prot": parse_list(m.group(4))},
                        caps={"prob": int(m.group(1)), "prot": int(m.group(3))}, extra={})
        if comp == "twoq":
            m = re.match(r"^rs=(\d+) gcap=(\d+) R(\[.*?\]) F(\[.*?\]) G(\[.*?\])$", s)
            return dict(lists={"recent": parse_list(m.group(3)), "frequent": parse_list(m.group(4)), "ghost": parse_list(m.group(5))},
                        caps={"ghost": int(m.group(2))}, extra={"rs": int(m.group(1))})
        if comp == "arc":
            m = re.match(r"^p=(\d+) T1(\[.*?\]) T2(\[.*?\]) B1(\[.*?\]) B2(\[.*?\])$", s)
            return dict(lists={"recent": parse_list(m.group(2)), "frequent": parse_list(m.group(3)),
                               "recentevict": parse_list(m.group(4)), "frequentevict": parse_list(m.group(5))},
                        caps={}, extra={"p": int(m.group(1))})
        if comp == "wtinylfu":
            m = re.match(r"^W\{cap=(\d+) (\[.*?\])\} P\{cap=(\d+) (\[.*?\])\} Q\{cap=(\d+) (\[.*?\])\} E\{(.*)\}$", s)
            return dict(lists={"window": parse_list(m.group(2)), "prob": parse_list(m.group(4)), "prot": parse_list(m.group(6))},
                        caps={"window": int(m.group(1)), "prob": int(m.group(3)), "prot": int(m.group(5))},
                        extra={"est": m.group(7)})
    except Exception:
        return None
    return None


RESIDENT = {
    "rawlru": ["lru"], "rawfrom": ["lru"], "slru": ["prot", "prob"], "twoq": ["frequent", "recent"],
    "arc": ["recent", "frequent"], "wtinylfu": ["window", "prot", "prob"],
}
GHOSTS = {"twoq": ["ghost"], "arc": ["recentevict", "frequentevict"]}


def resident(comp, st):
    out = {}
    for n in RESIDENT[comp]:
        for k, v in st["lists"][n]:
            out.setdefault(k, v)
    return out


def retained(comp, st):
    out = {}
    for n in RESIDENT[comp] + GHOSTS.get(comp, []):
        for k, v in st["lists"][n]:
            out.setdefault(k, v)
    return out


def retained_multiset(st):
    c = Counter()
    for l in st["lists"].values():
        for k, v in l:
            c["k%d" % k] += 1
            c["v%d" % v] += 1
    return c


def parse_put(s):
    """-> (kind, evicted (k,v) or None, old or None)"""
    if s == "Put":
        return ("Put", None, None)
    m = re.match(r"^Update\((\d+)\)$", s)
    if m:
        return ("Update", None, int(m.group(1)))
    m = re.match(r"^Evicted\((\d+):(\d+)\)$", s)
    if m:
        return ("Evicted", (int(m.group(1)), int(m.group(2))), None)
    m = re.match(r"^EvictedAndUpdate\((\d+):(\d+),(\d+)\)$", s)
    if m:
        return ("EvictedAndUpdate", (int(m.group(1)), int(m.group(2))), int(m.group(3)))
    return None


def parse_optv(s):
    if s == "none":
        return None
    m = re.match(r"^some (\d+)$", s)
    return int(m.group(1)) if m else "?"


def parse_opte(s):
    if s == "none":
        return None
    m = re.match(r"^some (\d+):(\d+)$", s)
    return (int(m.group(1)), int(m.group(2))) if m else "?"


def parse_orput(s):
    m = re.match(r"^\((.*), (.*)\)$", s)
    return (m.group(1), m.group(2)) if m else None


def states_of(case):
    """[(line, state-or-None)] for op lines that carry a state"""
    out = []
    for l in case.lines:
        st = parse_state(case.comp, l.pos[1]) if (l.out is not None and not l.panic and len(l.pos) > 1) else None
        out.append((l, st))
    return out


class Fail:
    def __init__(self, case, idx, msg):
        self.case, self.idx, self.msg = case, idx, msg

    def __repr__(self):
        lhs = self.case.lines[self.idx].lhs if 0 <= self.idx < len(self.case.lines) else self.case.head.lhs
        return "case %d (%s) line %d `%s`: %s" % (self.case.cid, self.case.comp, self.idx, lhs, self.msg)


def f64_of(bits_hex):
    return struct.unpack("<d", struct.pack("<Q", int(bits_hex, 16)))[0]


# ---------------------------------------------------------------------------------------------
# C01 capacity bound and size accounting
# ---------------------------------------------------------------------------------------------
def mon_C01(case):
    fails = []
    comp = case.comp
    if comp == "wtsizes":
        # constructors that fix the key hasher: the configured partition bounds must be the ones asked for
        P = case.params
        w, q, p = int(P["wcap"]), int(P["qcap"]), int(P["pcap"])
        for i, l in enumerate(case.lines):
            st = l.pos[1] if len(l.pos) > 1 else ""
            m = re.match(r"^W\{cap=(\d+)\} P\{cap=(\d+)\} Q\{cap=(\d+)\}$", st.strip())
            if m and (int(m.group(1)), int(m.group(2)), int(m.group(3))) != (w, p, q):
                fails.append(Fail(case, i, "configured bounds window=%d probationary=%d protected=%d, built with %s" % (w, p, q, st.strip())))
            res = l.pos[0].strip() if l.pos else ""
            if l.op == "cap" and res.isdigit() and int(res) != w + p + q:
                fails.append(Fail(case, i, "cap()=%s but the configured bounds add up to %d" % (res, w + p + q)))
        return fails
    if comp not in RESIDENT:
        return fails
    P = case.params
    for i, (l, st) in enumerate(states_of(case)):
        if l.op == "census" and l.out and not l.panic:
            m = re.match(r"^len=(\d+) cap=(\d+) empty=(true|false) in=\[(.*)\]$", l.out)
            if m:
                ln, cap, empty = int(m.group(1)), int(m.group(2)), m.group(3) == "true"
                inn = [int(x) for x in m.group(4).split()] if m.group(4).strip() else []
                if ln != len(inn) and census_universe_covers(case, i):
                    fails.append(Fail(case, i, "len()=%d but contains() is true for %d distinct keys %s" % (ln, len(inn), inn)))
                if ln > cap:
                    fails.append(Fail(case, i, "len()=%d exceeds cap()=%d" % (ln, cap)))
                prev = prev_state(case, i)
                if prev is not None:
                    ret = retained(comp, prev)
                    if empty != (len(ret) == 0):
                        fails.append(Fail(case, i, "is_empty()=%s but %d entries are retained" % (empty, len(ret))))
                    res = resident(comp, prev)
                    u = int(l.lhs.split()[1])
                    exp = sorted(k for k in res if 1 <= k <= u)
                    if exp != inn:
                        fails.append(Fail(case, i, "contains() true for %s but resident keys are %s" % (inn, exp)))
            continue
        if st is None:
            continue
        sz = l.named.get("sz")
        if sz is not None:
            ln, cap, empty = sz.split(",")
            ln, cap, empty = int(ln), int(cap), empty == "true"
            nres, nret = len(resident(comp, st)), len(retained(comp, st))
            if ln != nres:
                fails.append(Fail(case, i, "len()=%d but %d distinct keys are resident" % (ln, nres)))
            if ln > cap:
                fails.append(Fail(case, i, "len()=%d exceeds cap()=%d" % (ln, cap)))
            if empty != (nret == 0):
                fails.append(Fail(case, i, "is_empty()=%s but %d entries (resident or ghost) are retained" % (empty, nret)))
        L = st["lists"]
        allk = []
        for n, lst in L.items():
            ks = [k for k, _ in lst]
            if len(set(ks)) != len(ks):
                fails.append(Fail(case, i, "key twice in list %s: %s" % (n, ks)))
            allk += ks
        if len(set(allk)) != len(allk):
            fails.append(Fail(case, i, "a key is held in two partitions: %s" % {n: [k for k, _ in v] for n, v in L.items()}))
        if comp in ("rawlru", "rawfrom"):
            if len(L["lru"]) > st["caps"]["lru"]:
                fails.append(Fail(case, i, "%d entries exceed capacity %d" % (len(L["lru"]), st["caps"]["lru"])))
        elif comp == "slru":
            for n, key in (("prob", "pcap"), ("prot", "qcap")):
                if len(L[n]) > int(P[key]):
                    fails.append(Fail(case, i, "segment %s holds %d > %s" % (n, len(L[n]), P[key])))
        elif comp == "twoq":
            size = int(P["size"])
            if len(L["recent"]) + len(L["frequent"]) > size:
                fails.append(Fail(case, i, "recent+frequent = %d > size %d" % (len(L["recent"]) + len(L["frequent"]), size)))
            gb = int(size * f64_of(P["gr"]) // 1)
            if len(L["ghost"]) > gb:
                fails.append(Fail(case, i, "ghost list holds %d > floor(size*gr)=%d" % (len(L["ghost"]), gb)))
        elif comp == "arc":
            size = int(P["size"])
            if len(L["recent"]) + len(L["frequent"]) > size:
                fails.append(Fail(case, i, "recent+frequent = %d > size %d" % (len(L["recent"]) + len(L["frequent"]), size)))
            for n in ("recentevict", "frequentevict"):
                if len(L[n]) > size:
                    fails.append(Fail(case, i, "ghost list %s holds %d > size %d" % (n, len(L[n]), size)))
        elif comp == "wtinylfu":
            for n, key in (("window", "wcap"), ("prob", "pcap"), ("prot", "qcap")):
                if len(L[n]) > int(P[key]):
                    fails.append(Fail(case, i, "partition %s holds %d > %s" % (n, len(L[n]), P[key])))
    return fails


def census_universe_covers(case, i):
    """len == #contains is only checkable when every resident key lies inside the census universe"""
    prev = prev_state(case, i)
    if prev is None:
        return False
    u = int(case.lines[i].lhs.split()[1])
    return all(1 <= k <= u for k in resident(case.comp, prev))


def prev_state(case, i):
    for j in range(i - 1, -1, -1):
        l = case.lines[j]
        if l.op in ("swap", "clone", "clonefrom", "dropalt"):
            if l.op == "swap" and l.out and not l.panic:
                return parse_state(case.comp, l.pos[0] if l.pos else "")
            if l.op == "swap":
                return None
            continue
        if l.out is not None and not l.panic and len(l.pos) > 1:
            return parse_state(case.comp, l.pos[1])
    if case.comp == "rawfrom":
        return None
    # initial state: everything empty
    empty = {"rawlru": "cap=%s []" % case.params.get("cap", "0")}
    if case.comp == "rawlru":
        return parse_state("rawlru", empty["rawlru"])
    if case.comp == "slru":
        return parse_state("slru", "P{cap=%s []} Q{cap=%s []}" % (case.params["pcap"], case.params["qcap"]))
    if case.comp == "twoq":
        return dict(lists={"recent": [], "frequent": [], "ghost": []}, caps={}, extra={})
    if case.comp == "arc":
        return dict(lists={"recent": [], "frequent": [], "recentevict": [], "frequentevict": []}, caps={}, extra={"p": 0})
    if case.comp == "wtinylfu":
        return dict(lists={"window": [], "prob": [], "prot": []},
                    caps={"window": int(case.params["wcap"]), "prob": int(case.params["pcap"]), "prot": int(case.params["qcap"])},
                    extra={"est": None})
    return None


# ---------------------------------------------------------------------------------------------
# C02 coherence
# ---------------------------------------------------------------------------------------------
LOOKUPS = ("get", "getmut", "peek", "peekmut")


def mon_C02(case):
    fails = []
    comp = case.comp
    if comp not in RESIDENT:
        return fails
    truth = {}
    synced = comp != "rawfrom"
    for i, (l, st) in enumerate(states_of(case)):
        if l.out is None or l.panic:
            break
        toks = l.lhs.split()
        op = toks[0]
        if op in ("clone", "clonefrom", "dropalt", "census"):
            continue
        if op == "swap":
            s2 = parse_state(comp, l.pos[0] if l.pos else "")
            truth = dict(retained(comp, s2)) if s2 else {}
            continue
        if st is None:
            continue
        if not synced:
            truth = dict(retained(comp, st))
            synced = True
            continue
        res = l.pos[0]
        if op in LOOKUPS:
            k = int(toks[1])
            v = parse_optv(res)
            if v is not None:
                if k not in truth:
                    fails.append(Fail(case, i, "%s(%d) returned %s but the key was never stored / was released" % (op, k, v)))
                elif truth[k] != v:
                    fails.append(Fail(case, i, "%s(%d) returned %s, most recently stored value is %s" % (op, k, v, truth[k])))
                if op in ("getmut", "peekmut") and int(toks[2]) != 0:
                    truth[k] = int(toks[2])
            # agreement of the lookups on residency (state = the implementation's own lists)
            r = resident(comp, st)
            if (v is not None) != (k in r) and op in ("peek", "peekmut", "get", "getmut"):
                fails.append(Fail(case, i, "%s(%d) says %s but residency in the lists is %s" % (op, k, res, k in r)))
        elif op == "contains":
            k = int(toks[1])
            r = resident(comp, st)
            if (res == "true") != (k in r):
                fails.append(Fail(case, i, "contains(%d)=%s but residency in the lists is %s" % (k, res, k in r)))
            if res == "true" and k not in truth:
                fails.append(Fail(case, i, "contains(%d) true for a key that was never stored / was released" % k))
        elif op in ("put", "putprotected"):
            k, v = int(toks[1]), int(toks[2])
            pr = parse_put(res)
            if pr is None:
                continue
            kind, ev, old = pr
            if old is not None:
                if k not in truth:
                    fails.append(Fail(case, i, "Update(%d) reported for key %d that was not stored" % (old, k)))
                elif truth[k] != old:
                    fails.append(Fail(case, i, "Update(%d) but the stored value of %d was %s" % (old, k, truth[k])))
            if ev is not None:
                ek, evv = ev
                if (ek, evv) == (k, v):
                    continue          # handed straight back (capacity 0)
                if ek not in truth or truth[ek] != evv:
                    fails.append(Fail(case, i, "evicted pair %d:%d does not match the stored value %s" % (ek, evv, truth.get(ek))))
                truth.pop(ek, None)
            truth[k] = v
        elif op in ("remove", "removeres"):
            k = int(toks[1])
            v = parse_optv(res) if res != "skip" else None
            if v is not None:
                if k not in truth:
                    fails.append(Fail(case, i, "remove(%d) returned %s for a key that was not stored" % (k, v)))
                elif truth[k] != v:
                    fails.append(Fail(case, i, "remove(%d) returned %s, stored value is %s" % (k, v, truth[k])))
            if res != "skip":
                truth.pop(k, None)
        elif op == "purge":
            truth = {}
        else:
            # every other operation (resize, remove_lru, *_or_put, writes through iterators and
            # peek_*_mut ...): resynchronise from the implementation's lists, but a key may never reappear
            now = retained(comp, st)
            for k in now:
                if k not in truth and not (op in ("peekorput", "peekmutorput", "containsorput") and int(toks[1]) == k):
                    fails.append(Fail(case, i, "key %d reappeared after %s without being put" % (k, op)))
            truth = dict(now)
            continue
        # released silently is allowed for ghosts (ARC) and never for wrong values: drop what is gone
        now = retained(comp, st)
        for k in list(truth):
            if k not in now:
                del truth[k]
        for k, v in now.items():
            if k in truth and truth[k] != v:
                fails.append(Fail(case, i, "stored value of key %d is %d, last written value is %d" % (k, v, truth[k])))
                truth[k] = v
            elif k not in truth:
                fails.append(Fail(case, i, "key %d is retained but was released / never stored" % k))
                truth[k] = v
    return fails


# ---------------------------------------------------------------------------------------------
# C03 structure audit, C04 ownership, C05 totality
# ---------------------------------------------------------------------------------------------
def mon_C03(case):
    fails = []
    for i, l in enumerate(case.lines):
        if l.out is None:
            continue
        if l.panic:
            fails.append(Fail(case, i, "panic (a sentinel read / unwrap on a corrupted list)"))
            break
        au = l.named.get("au")
        if au is not None and au != "ok":
            fails.append(Fail(case, i, "structural audit failed: %s" % au))
    if case.crashed:
        fails.append(Fail(case, len(case.lines) - 1, "the process died (memory fault)"))
    return fails


def handed(case, l, st_before):
    """(handed in, handed back) multisets of one operation, from its text"""
    toks = l.lhs.split()
    op = toks[0]
    inn, back = Counter(), Counter()
    res = l.pos[0] if l.pos else ""

    def putres(s):
        pr = parse_put(s)
        if pr:
            _, ev, old = pr
            if ev:
                back["k%d" % ev[0]] += 1
                back["v%d" % ev[1]] += 1
            if old is not None:
                back["v%d" % old] += 1
    if op in ("put", "putprotected"):
        inn["k%s" % toks[1]] += 1
        inn["v%s" % toks[2]] += 1
        putres(res)
    elif op in ("peekorput", "peekmutorput", "containsorput"):
        inn["k%s" % toks[1]] += 1
        inn["v%s" % toks[2]] += 1
        pp = parse_orput(res)
        if pp:
            putres(pp[1])
            if op == "peekmutorput" and pp[0].startswith("some") and int(toks[3]) != 0:
                inn["v%s" % toks[3]] += 1
                back["v%d" % parse_optv(pp[0])] += 1
    elif op in ("getmut", "peekmut"):
        v = parse_optv(res)
        if v is not None and int(toks[2]) != 0:
            inn["v%s" % toks[2]] += 1
            back["v%d" % v] += 1
    elif op in ("getlrumut", "getmrumut", "peeklrumut", "peekmrumut", "peeklrumutprob", "peekmrumutprob",
                "peeklrumutprot", "peekmrumutprot"):
        e = parse_opte(res)
        if e is not None and int(toks[1]) != 0:
            inn["v%s" % toks[1]] += 1
            back["v%d" % e[1]] += 1
    elif op in ("remove", "removeres"):
        v = parse_optv(res) if res != "skip" else None
        if v is not None:
            back["v%d" % v] += 1
    elif op in ("removelru", "removelruprob", "removelruprot"):
        e = parse_opte(res)
        if e is not None:
            back["k%d" % e[0]] += 1
            back["v%d" % e[1]] += 1
    elif op == "iter":
        wb = int(toks[-1])
        kind = toks[-3]
        if wb != 0 and "mut" in kind:
            m = re.match(r"^\[(.*)\] count", res)
            ys = m.group(1).split(" ") if m and m.group(1) else []
            for j, y in enumerate(ys):
                body = y.rsplit("/", 1)[0]
                if body == "none":
                    continue
                old = int(body.split(":")[-1])
                inn["v%d" % (wb + j)] += 1
                back["v%d" % old] += 1
    return inn, back


def mon_C04(case):
    fails = []
    if case.end is not None and case.end.out is not None:
        for k, what in (("dd", "objects dropped twice"), ("live", "objects leaked"), ("heap", "bytes of heap still allocated after drop")):
            v = case.end.named.get(k)
            if v is not None and v != "0":
                fails.append(Fail(case, len(case.lines), "%s %s" % (v, what)))
    if case.params.get("keys") != "trk" or case.comp not in RESIDENT:
        return fails
    before = prev_state(case, 0)
    for i, (l, st) in enumerate(states_of(case)):
        if l.out is None or l.panic:
            break
        if l.op in ("clone", "clonefrom", "dropalt", "census"):
            continue
        if l.op == "swap":
            before = parse_state(case.comp, l.pos[0] if l.pos else "")
            continue
        if st is None:
            continue
        if before is not None and "dr" in l.named:
            inn, back = handed(case, l, before)
            dr = Counter(l.named["dr"][1:-1].split()) if l.named["dr"] != "[]" else Counter()
            lhs = retained_multiset(before) + inn
            rhs = retained_multiset(st) + back + dr
            if lhs != rhs:
                lost = lhs - rhs
                extra = rhs - lhs
                fails.append(Fail(case, i, "ownership not conserved: unaccounted %s, accounted twice %s" % (dict(lost), dict(extra))))
        # "purge releases every retained key and value": nothing may be retained (resident or ghost) right after it
        if l.op == "purge" and retained_multiset(st):
            fails.append(Fail(case, i, "purge left entries retained: %s" % dict(retained_multiset(st))))
        before = st
    # final drop: everything still retained is released
    if case.end is not None and "dr" in case.end.named and before is not None and not any(l.op in ("clone", "clonefrom", "swap") for l in case.lines):
        dr = Counter(case.end.named["dr"][1:-1].split()) if case.end.named["dr"] != "[]" else Counter()
        if dr != retained_multiset(before):
            fails.append(Fail(case, len(case.lines), "drop of the cache released %s, retained was %s" % (dict(dr), dict(retained_multiset(before)))))
    return fails


def expected_ctor(case):
    """documented constructor verdict, from the argument text alone"""
    P, comp = case.params, case.comp

    def ratio_bad(bits):
        r = f64_of(bits)
        return not (0.0 <= r <= 1.0)

    def fp_bad(bits):
        r = f64_of(bits)
        return not (0.0 < r < 1.0)
    if comp == "rawlru":
        return "err InvalidSize" if int(P["cap"]) == 0 else "ok"
    if comp == "rawfrom":
        return "ok"
    if comp == "slru":
        return "err InvalidSize" if int(P["pcap"]) == 0 or int(P["qcap"]) == 0 else "ok"
    if comp == "arc":
        return "err InvalidSize" if int(P["size"]) == 0 else "ok"
    if comp == "twoq":
        size = int(P["size"])
        if size == 0:
            return "err InvalidSize"
        if ratio_bad(P["rr"]):
            return "err InvalidRecentRatio"
        if ratio_bad(P["gr"]):
            return "err InvalidGhostRatio"
        if int(size * f64_of(P["gr"]) // 1) == 0:
            return "err InvalidSize"
        return "ok"
    if comp == "tinylfu":
        if int(P["samples"]) == 0:
            return "err InvalidSamples"
        if fp_bad(P["fp"]):
            return "err InvalidFalsePositiveRatio"
        if int(P["size"]) == 0:
            return "err InvalidCountMinWidth"
        return "ok"
    if comp in ("wtinylfu", "wtsizes"):
        if int(P["wcap"]) == 0:
            return "err InvalidWindowCacheSize"
        if int(P["qcap"]) == 0:
            return "err InvalidProtectedCacheSize"
        if int(P["pcap"]) == 0:
            return "err InvalidProbationaryCacheSize"
        if int(P["samples"]) == 0:
            return "err InvalidSamples"
        if "fp" in P and fp_bad(P["fp"]):
            return "err InvalidFalsePositiveRatio"
        return "ok"
    return "ok"


def mon_C05(case):
    fails = []
    exp = expected_ctor(case)
    got = case.head.out
    if got is not None:
        if got.startswith("PANIC"):
            fails.append(Fail(case, -1, "constructor panicked"))
        elif got != exp:
            fails.append(Fail(case, -1, "constructor returned `%s`, documented verdict is `%s`" % (got, exp)))
    for i, l in enumerate(case.lines):
        if l.panic:
            fails.append(Fail(case, i, "operation panicked"))
            break
    if case.crashed:
        fails.append(Fail(case, len(case.lines) - 1, "the process died"))
    return fails


# ---------------------------------------------------------------------------------------------
# C06 RawLRU recency order (reference written from the property text)
# ---------------------------------------------------------------------------------------------
def lru_use(lst, k, v=None):
    for i, (kk, vv) in enumerate(lst):
        if kk == k:
            return [(k, vv if v is None else v)] + lst[:i] + lst[i + 1:]
    return None


def mon_C06(case):
    fails = []
    if case.comp not in ("rawlru", "rawfrom"):
        return fails
    prev = prev_state(case, 0)
    for i, (l, st) in enumerate(states_of(case)):
        if l.out is None or l.panic:
            break
        toks = l.lhs.split()
        op = toks[0]
        if op in ("clone", "clonefrom", "dropalt", "census"):
            continue
        if op == "swap":
            prev = parse_state(case.comp, l.pos[0] if l.pos else "")
            continue
        if st is None:
            continue
        if prev is None:
            prev = st
            continue
        old, cap = prev["lists"]["lru"], prev["caps"]["lru"]
        new, ncap = st["lists"]["lru"], st["caps"]["lru"]
        res = l.pos[0]
        exp, expres = None, None
        keys = [k for k, _ in old]

        def put_like(k, v):
            if k in keys:
                return lru_use(old, k, v), "Update(%d)" % dict(old)[k]
            if cap == 0:
                return old, "Evicted(%d:%d)" % (k, v)
            if len(old) >= cap:
                return [(k, v)] + old[:-1], "Evicted(%d:%d)" % old[-1]
            return [(k, v)] + old, "Put"
        if op == "put":
            exp, expres = put_like(int(toks[1]), int(toks[2]))
        elif op in ("get", "getmut"):
            k = int(toks[1])
            if k in keys:
                w = int(toks[2]) if op == "getmut" and int(toks[2]) != 0 else None
                exp, expres = lru_use(old, k, w), "some %d" % dict(old)[k]
            else:
                exp, expres = old, "none"
        elif op in ("getlru", "getlrumut"):
            if old:
                w = int(toks[1]) if op == "getlrumut" and int(toks[1]) != 0 else None
                exp, expres = lru_use(old, old[-1][0], w), "some %d:%d" % old[-1]
            else:
                exp, expres = old, "none"
        elif op in ("peek", "contains", "len", "cap", "isempty", "debug", "getmru", "peeklru", "peekmru"):
            exp = old
            if op == "peek":
                expres = "some %d" % dict(old)[int(toks[1])] if int(toks[1]) in keys else "none"
            elif op == "contains":
                expres = "true" if int(toks[1]) in keys else "false"
            elif op == "len":
                expres = str(len(old))
            elif op == "cap":
                expres = str(cap)
            elif op == "isempty":
                expres = "true" if not old else "false"
            elif op in ("getmru", "peekmru"):
                expres = "some %d:%d" % old[0] if old else "none"
            elif op == "peeklru":
                expres = "some %d:%d" % old[-1] if old else "none"
        elif op in ("peekmut", "peeklrumut", "peekmrumut", "getmrumut"):
            # order must not change; values may
            if [k for k, _ in new] != keys:
                fails.append(Fail(case, i, "%s changed the recency order: %s -> %s" % (op, keys, [k for k, _ in new])))
            if op in ("peekmrumut", "getmrumut"):
                expres = "some %d:%d" % old[0] if old else "none"
            elif op == "peeklrumut":
                expres = "some %d:%d" % old[-1] if old else "none"
        elif op == "removelru":
            exp, expres = (old[:-1], "some %d:%d" % old[-1]) if old else (old, "none")
        elif op in ("remove", "removeres"):
            k = int(toks[1])
            if k in keys:
                exp, expres = [e for e in old if e[0] != k], "some %d" % dict(old)[k]
            else:
                exp, expres = old, ("none" if op == "remove" else "skip")
        elif op == "purge":
            exp = []
        elif op == "resize":
            n = int(toks[1])
            exp = old[:n]
            expres = str(max(0, len(old) - n))
            if ncap != n:
                fails.append(Fail(case, i, "resize(%d) left capacity %d" % (n, ncap)))
        elif op in ("peekorput", "containsorput", "peekmutorput"):
            k, v = int(toks[1]), int(toks[2])
            if k in keys:
                if [kk for kk, _ in new] != keys:
                    fails.append(Fail(case, i, "%s on a present key changed the order" % op))
                expres = ("(true, none)" if op == "containsorput" else "(some %d, none)" % dict(old)[k])
            else:
                exp, r = put_like(k, v)
                expres = ("(false, %s)" if op == "containsorput" else "(none, %s)") % r
        elif op == "iter":
            if [k for k, _ in new] != keys:
                fails.append(Fail(case, i, "iteration changed the recency order"))
        if exp is not None and exp != new:
            fails.append(Fail(case, i, "recency order: expected %s, implementation has %s" % (exp, new)))
        if expres is not None and expres != res:
            fails.append(Fail(case, i, "result: expected %s, implementation returned %s" % (expres, res)))
        prev = st
    return fails


# ---------------------------------------------------------------------------------------------
# C12 PutResult tells the truth
# ---------------------------------------------------------------------------------------------
def mon_C12(case):
    fails = []
    comp = case.comp
    if comp == "putresult":
        # "two results compare equal exactly when they are the same variant with equal payloads, and Clone/Copy preserve that"
        def show(t):
            p = t.split(":")
            return {"P": "Put", "U": "Update(%s)", "E": "Evicted(%s:%s)", "X": "EvictedAndUpdate(%s:%s,%s)"}[p[0]] % tuple(p[1:])
        for i, l in enumerate(case.lines):
            t = l.lhs.split()
            res = l.pos[0].strip() if l.pos else ""
            # payload 9 is the value that is not equal to itself: equal = same variant, payloads pairwise `==`
            def eq(a, b):
                pa, pb = a.split(":"), b.split(":")
                return pa[0] == pb[0] and all(x == y and x != "9" for x, y in zip(pa[1:], pb[1:]))
            if t[0] == "preq" and res != ("true" if eq(t[1], t[2]) else "false"):
                fails.append(Fail(case, i, "%s == %s evaluates to %s" % (show(t[1]), show(t[2]), res)))
            if t[0] == "preqself" and res != ("true" if eq(t[1], t[1]) else "false"):
                fails.append(Fail(case, i, "r == r for the single object r = %s evaluates to %s (9 is not equal to itself)" % (show(t[1]), res)))
            if t[0] == "prclone" and res != show(t[1]):
                fails.append(Fail(case, i, "clone/copy of %s is %s" % (show(t[1]), res)))
        return fails
    if comp not in RESIDENT:
        return fails
    prev = prev_state(case, 0)
    for i, (l, st) in enumerate(states_of(case)):
        if l.panic and l.op in ("put", "putprotected", "peekorput", "peekmutorput", "containsorput"):
            fails.append(Fail(case, i, "put panicked instead of reporting a result"))
        if l.out is None or l.panic:
            break
        toks = l.lhs.split()
        op = toks[0]
        if op in ("clone", "clonefrom", "dropalt", "census"):
            continue
        if op == "swap":
            prev = parse_state(comp, l.pos[0] if l.pos else "")
            continue
        if st is None:
            continue
        if prev is not None and op in ("put", "putprotected", "peekorput", "peekmutorput", "containsorput"):
            k, v = int(toks[1]), int(toks[2])
            res = l.pos[0]
            if op.endswith("orput"):
                pp = parse_orput(res)
                if pp is None or pp[1] == "none":
                    prev = st
                    continue
                res = pp[1]
            pr = parse_put(res)
            if pr is None:
                prev = st
                continue
            kind, ev, old = pr
            before, after = retained(comp, prev), retained(comp, st)
            was = before.get(k)
            zero_cap = comp in ("rawlru", "rawfrom") and prev["caps"]["lru"] == 0
            if zero_cap:
                if not (kind == "Evicted" and ev == (k, v)) or after != before:
                    fails.append(Fail(case, i, "capacity 0: the pair must be handed straight back, got %s" % res))
                prev = st
                continue
            if resident(comp, st).get(k) != v:
                fails.append(Fail(case, i, "after put(%d,%d) the key is not resident with that value (%s)" % (k, v, resident(comp, st).get(k))))
            if (old is not None) != (was is not None):
                fails.append(Fail(case, i, "%s but the key %s retained before" % (res, "was" if was is not None else "was not")))
            if old is not None and was is not None and old != was:
                fails.append(Fail(case, i, "Update carries %d, previously stored value was %d" % (old, was)))
            gone = {kk: vv for kk, vv in before.items() if kk not in after and kk != k}
            if comp == "arc":
                gh = {}
                for n in GHOSTS["arc"]:
                    gh.update(dict(prev["lists"][n]))
                # ARC may drop ghost entries silently; the entry `replace` demotes to a ghost list during this very
                # put (the least recent entry of recent or frequent) is a ghost entry when the trim discards it
                for n in RESIDENT["arc"]:
                    if prev["lists"][n]:
                        gh.setdefault(*prev["lists"][n][-1])
                gone = {kk: vv for kk, vv in gone.items() if kk not in gh}
            if ev is None:
                if gone:
                    fails.append(Fail(case, i, "%s reported but entries %s left the cache" % (res, gone)))
            else:
                if ev[0] == k:
                    fails.append(Fail(case, i, "the put key itself is reported evicted: %s" % res))
                elif before.get(ev[0]) != ev[1]:
                    fails.append(Fail(case, i, "reported evicted pair %d:%d was not a stored entry (%s)" % (ev[0], ev[1], before.get(ev[0]))))
                elif ev[0] in after:
                    fails.append(Fail(case, i, "entry %d reported evicted but still retained" % ev[0]))
                others = {kk: vv for kk, vv in gone.items() if kk != ev[0]}
                if others:
                    fails.append(Fail(case, i, "entries %s left the cache unreported" % others))
            new = {kk for kk in after if kk not in before and kk != k}
            if new:
                fails.append(Fail(case, i, "entries %s appeared from nowhere" % new))
        prev = st
    return fails


# ---------------------------------------------------------------------------------------------
# C13 read-only operations
# ---------------------------------------------------------------------------------------------
READONLY = {"peek", "contains", "len", "cap", "isempty", "debug", "getmru", "peeklru", "peekmru", "census",
            "problen", "protlen", "probcap", "protcap", "peeklruprob", "peekmruprob", "peeklruprot", "peekmruprot",
            "recentlen", "frequentlen", "ghostlen", "partition", "recentevictlen", "frequentevictlen",
            "windowlen", "windowcap", "mainlen", "maincap"}
READONLY_IF_NO_WRITE = {"peekmut": 2, "peeklrumut": 1, "peekmrumut": 1, "getmrumut": 1, "peeklrumutprob": 1,
                        "peekmrumutprob": 1, "peeklrumutprot": 1, "peekmrumutprot": 1}


def mon_C13(case):
    fails = []
    if case.comp not in RESIDENT:
        return fails
    prev_txt = None
    for i, l in enumerate(case.lines):
        if l.out is None or l.panic:
            break
        toks = l.lhs.split()
        op = toks[0]
        if op in ("clone", "clonefrom", "dropalt"):
            continue
        if op == "swap":
            prev_txt = l.pos[0] if l.pos else None
            continue
        if op == "census":
            continue
        cur = l.pos[1] if len(l.pos) > 1 else None
        ro = op in READONLY or (op in READONLY_IF_NO_WRITE and int(toks[READONLY_IF_NO_WRITE[op]]) == 0) \
            or (op == "iter" and int(toks[-1]) == 0)
        if ro and prev_txt is not None and cur is not None and cur != prev_txt:
            fails.append(Fail(case, i, "read-only %s changed the state: %s -> %s" % (op, prev_txt, cur)))
        if cur is not None:
            prev_txt = cur
    return fails


# ---------------------------------------------------------------------------------------------
# C14 iterators
# ---------------------------------------------------------------------------------------------
def mon_C14(case):
    fails = []
    comp = case.comp
    if comp not in ("rawlru", "rawfrom", "twoq", "arc"):
        return fails
    for i, (l, st) in enumerate(states_of(case)):
        if l.op != "iter" or l.out is None or l.panic or st is None:
            continue
        toks = l.lhs.split()
        if comp in ("rawlru", "rawfrom"):
            lst_name, kind, script, wb = "lru", toks[1], toks[2], int(toks[3])
        else:
            lst_name, kind, script, wb = toks[1], toks[2], toks[3], int(toks[4])
        prev = prev_state(case, i)
        if prev is None:
            continue
        items = list(prev["lists"][lst_name])
        if "CLONE-DIVERGED" in l.pos[0]:
            fails.append(Fail(case, i, "a cloned iterator did not advance independently"))
            continue
        m = re.match(r"^\[(.*)\] count=(\d+)(!?)$", l.pos[0])
        if not m:
            fails.append(Fail(case, i, "unparsable iterator result %s" % l.pos[0]))
            continue
        ys = m.group(1).split(" ") if m.group(1) else []
        order = list(reversed(items)) if "lru" in kind else list(items)
        lo, hi = 0, len(order)
        script = "" if script == "-" else script
        written = {}
        for j, ch in enumerate(script):
            if j >= len(ys):
                break
            body, hint = ys[j].rsplit("/", 1)
            if lo < hi:
                e = order[lo] if ch == "f" else order[hi - 1]
                if ch == "f":
                    lo += 1
                else:
                    hi -= 1
                if kind.startswith("keys"):
                    exp = "%d" % e[0]
                elif kind.startswith("values"):
                    exp = "%d" % e[1]
                else:
                    exp = "%d:%d" % e
                if wb and "mut" in kind:
                    written[e[0]] = wb + j
            else:
                exp = "none"
            if body != exp:
                fails.append(Fail(case, i, "step %d (%s): yielded %s, expected %s" % (j, ch, body, exp)))
                break
            if hint != str(hi - lo):
                fails.append(Fail(case, i, "step %d: size_hint/len %s, %d entries remain" % (j, hint, hi - lo)))
                break
        if m.group(3) == "!" or int(m.group(2)) != hi - lo:
            fails.append(Fail(case, i, "count() = %s but %d entries remain" % (m.group(2), hi - lo)))
        exp_items = [(k, written.get(k, v)) for k, v in items]
        if st["lists"][lst_name] != exp_items:
            fails.append(Fail(case, i, "list after iteration %s, expected %s" % (st["lists"][lst_name], exp_items)))
    return fails


# ---------------------------------------------------------------------------------------------
# C15 eviction callback
# ---------------------------------------------------------------------------------------------
def mon_C15(case):
    fails = []
    if case.comp != "rawlru":
        return fails
    hascb = case.params.get("cb") == "1"
    prev = prev_state(case, 0)
    for i, (l, st) in enumerate(states_of(case)):
        if l.out is None or l.panic:
            break
        if l.op in ("clone", "clonefrom", "dropalt", "census"):
            continue
        if l.op == "swap":
            prev = parse_state(case.comp, l.pos[0] if l.pos else "")
            continue
        if st is None or "cb" not in l.named:
            continue
        cbs = parse_list(l.named["cb"])
        if prev is not None:
            old, new = prev["lists"]["lru"], st["lists"]["lru"]
            newkeys = {k for k, _ in new}
            # entries that left, in leaving order = LRU first
            left = [e for e in reversed(old) if e[0] not in newkeys]
            # a written value: departing entries carry their current value
            exp = left if hascb else []
            if any(999999999999 in e for e in cbs):
                fails.append(Fail(case, i, "the eviction callback was handed a key or value that had already been dropped (logged as 999999999999): %s" % (cbs,)))
            elif cbs != exp:
                fails.append(Fail(case, i, "callback log %s, departing entries (LRU first) %s" % (cbs, exp)))
        prev = st
    return fails


# ---------------------------------------------------------------------------------------------
# C16 clone
# ---------------------------------------------------------------------------------------------
def mon_C16(case):
    fails = []
    last = None        # (state text, sz) of the original at the moment of the clone
    for i, l in enumerate(case.lines):
        if l.out is None or l.panic:
            break
        if l.op in ("clone", "clonefrom"):
            if l.out.startswith("BAD"):
                continue
            # configuration the state dump does not show (sketch seeds/masks, doorkeeper geometry): identical in a clone
            geo = l.named.get("geo")
            geo0 = l.named.get("geoo")
            if geo is not None and geo0 is not None and geo != geo0:
                fails.append(Fail(case, i, "clone is configured differently from the original: clone %s, original %s" % (geo, geo0)))
            got = (l.pos[0] if l.pos else None, l.named.get("sz"))
            if last is not None and got != last:
                fails.append(Fail(case, i, "clone differs from the original: clone %s, original %s" % (got, last)))
            continue
        if l.op == "swap":
            last = (l.pos[0] if l.pos else None, l.named.get("sz"))
            continue
        if len(l.pos) > 1:
            last = (l.pos[1], l.named.get("sz"))
    # "any subsequent operation sequence applied to both produces identical results": the eviction callback is part
    # of what a RawLRU does, so after a clone / swap the callback oracle of C15 applies to whichever copy is driven
    if case.comp == "rawlru" and any(l.op in ("clone", "clonefrom", "swap") for l in case.lines):
        for f in mon_C15(case):
            fails.append(Fail(f.case, f.idx, "on a cache that was cloned: " + f.msg))
    return fails


# ---------------------------------------------------------------------------------------------
# C11 TinyLFU reference
# ---------------------------------------------------------------------------------------------
def mon_C11(case):
    fails = []
    if case.comp != "tinylfu" or case.head.out != "ok":
        return fails
    samples = int(case.params["samples"])
    kh = {}
    for e in case.env:
        t = e.lhs.split()
        if t[0] == "kh":
            kh[int(t[1])] = int(t[2], 16)
    cnt, door, w = Counter(), set(), 0
    seen = set()
    alt = None

    def reset():
        nonlocal w
        w = 0
        for h in list(cnt):
            cnt[h] //= 2
        door.clear()

    def try_reset():
        nonlocal w
        w += 1
        if w >= samples:
            reset()

    def inc(h):
        seen.add(h)
        if h not in door:
            door.add(h)
        else:
            cnt[h] = min(15, cnt[h] + 1)
        try_reset()

    def check_est(i, h, est):
        exact = cnt[h] + (1 if h in door else 0)
        if est < exact:
            fails.append(Fail(case, i, "estimate %d below the exact aged count %d of hash %x" % (est, exact, h)))
        if est > 16:
            fails.append(Fail(case, i, "estimate %d exceeds 16" % est))
        if len(seen | {h}) <= 1 and est != exact:
            fails.append(Fail(case, i, "single recorded hash: estimate %d, exact count %d" % (est, exact)))
        if not seen and est != 0:
            fails.append(Fail(case, i, "estimate %d right after clear / construction" % est))
    for i, l in enumerate(case.lines):
        if l.panic:
            fails.append(Fail(case, i, "the estimator panicked (sketch size %s, samples %s)" % (case.params["size"], samples)))
        if l.out is None or l.panic:
            break
        t = l.lhs.split()
        op = t[0]
        res = l.pos[0] if l.pos else ""
        if op in ("clone", "clonefrom"):
            alt = (Counter(cnt), set(door), w, set(seen))
            continue
        if op == "swap":
            cur = (Counter(cnt), set(door), w, set(seen))
            if alt is not None:
                cnt, door, w, seen = alt
                alt = cur
            continue
        if op == "dropalt":
            continue
        if op == "inc":
            inc(int(t[1], 16))
        elif op == "incs":
            for x in t[1:]:
                inc(int(x, 16))
        elif op == "inck":
            inc(kh[int(t[1])])
        elif op == "incks":
            for x in t[1:]:
                inc(kh[int(x)])
        elif op == "tryreset":
            try_reset()
        elif op == "clear":
            cnt.clear()
            door.clear()
            seen.clear()
            w = 0
        elif op in ("est", "estk"):
            h = int(t[1], 16) if op == "est" else kh[int(t[1])]
            check_est(i, h, int(res))
        elif op in ("has", "hask"):
            h = int(t[1], 16) if op == "has" else kh[int(t[1])]
            if h in door and res != "true":
                fails.append(Fail(case, i, "doorkeeper forgot hash %x recorded since the last reset" % h))
            if not seen and res != "false":
                fails.append(Fail(case, i, "doorkeeper reports a hash right after clear"))
        elif op == "cmp":
            m = re.match(r"^(true|false) (\d+) (\d+)$", res)
            if m:
                b, ea, eb = m.group(1) == "true", int(m.group(2)), int(m.group(3))
                exp = {"eq": ea == eb, "le": ea <= eb, "lt": ea < eb, "gt": ea > eb, "ge": ea >= eb}[t[1]]
                if b != exp:
                    fails.append(Fail(case, i, "%s(a,b)=%s but estimates are %d and %d" % (t[1], b, ea, eb)))
                check_est(i, kh[int(t[2])], ea)
                check_est(i, kh[int(t[3])], eb)
        if len(l.pos) > 1:
            m = re.match(r"^w=(\d+) ", l.pos[1])
            if m and int(m.group(1)) != w:
                fails.append(Fail(case, i, "window counter %s, %d accesses recorded since the last reset (samples=%d)" % (m.group(1), w, samples)))
                w = int(m.group(1))
    return fails


# ---------------------------------------------------------------------------------------------
# C20 SampledLFU reference
# ---------------------------------------------------------------------------------------------
def mon_C20(case):
    fails = []
    if case.comp != "sampled":
        return fails
    costs = {}
    maxc = int(case.params["max"])
    samples = int(case.params["samples"])
    for i, l in enumerate(case.lines):
        if l.out is None or l.panic:
            break
        t = l.lhs.split()
        op, res = t[0], (l.pos[0] if l.pos else "")
        if op == "sinc":
            costs[int(t[1])] = int(t[2])
        elif op == "supd":
            k = int(t[1])
            if (res == "true") != (k in costs):
                fails.append(Fail(case, i, "update reports %s, key tracked: %s" % (res, k in costs)))
            if k in costs:
                costs[k] = int(t[2])
        elif op == "srem":
            k = int(t[1])
            exp = "some %d" % costs[k] if k in costs else "none"
            if res != exp:
                fails.append(Fail(case, i, "remove returned %s, expected %s" % (res, exp)))
            costs.pop(k, None)
        elif op == "sclear":
            costs = {}
        elif op == "smax":
            maxc = int(t[1])
        elif op == "getmax":
            if int(res) != maxc:
                fails.append(Fail(case, i, "max cost %s, expected %d" % (res, maxc)))
        elif op == "room":
            exp = maxc - sum(costs.values()) - int(t[1])
            if int(res) != exp:
                fails.append(Fail(case, i, "room_left(%s) = %s, max - sum(costs) - c = %d" % (t[1], res, exp)))
        elif op == "fill":
            given = [tuple(int(x) for x in p.split(":")) for p in t[1:]]
            got = [tuple(int(x) for x in p.split(":")) for p in res[1:-1].split()] if res != "[]" else []
            if got[:len(given)] != given:
                fails.append(Fail(case, i, "fill_sample does not start with its input"))
            tail = got[len(given):]
            if len(given) >= samples:
                if tail:
                    fails.append(Fail(case, i, "fill_sample appended to an already full sample"))
            else:
                if any(costs.get(k) != c for k, c in tail):
                    fails.append(Fail(case, i, "fill_sample appended pairs that are not tracked: %s" % tail))
                if len(set(tail)) != len(tail):
                    fails.append(Fail(case, i, "fill_sample appended a pair twice"))
                if len(got) != min(max(samples, len(given)), len(given) + len(costs)):
                    fails.append(Fail(case, i, "fill_sample returned %d pairs; sample size %d, %d tracked" % (len(got), samples, len(costs))))
    return fails


MONITORS = {
    "C01": mon_C01, "C02": mon_C02, "C03": mon_C03, "C04": mon_C04, "C05": mon_C05, "C06": mon_C06,
    "C11": mon_C11, "C12": mon_C12, "C13": mon_C13, "C14": mon_C14, "C15": mon_C15, "C16": mon_C16, "C20": mon_C20,
}


# ---------------------------------------------------------------------------------------------
# policy references (C07 - C10), written from the property texts; all step-wise: the expected next
# lists are computed from the implementation's OWN previous state, so one divergence does not cascade
# ---------------------------------------------------------------------------------------------
def without(lst, k):
    return [e for e in lst if e[0] != k]


def valof(lst, k):
    for kk, vv in lst:
        if kk == k:
            return vv
    return None


def slru_promote(P, Q, qcap, k, newv=None):
    """entry of k leaves probationary for the protected head; a full protected segment demotes its LRU"""
    old = valof(P, k)
    ent = (k, old if newv is None else newv)
    P1 = without(P, k)
    if len(Q) >= qcap:
        dem = Q[-1]
        return [dem] + P1, [ent] + Q[:-1], old
    return P1, [ent] + Q, old


def slru_put(P, Q, pcap, qcap, k, v):
    if valof(Q, k) is not None:
        return P, [(k, v)] + without(Q, k), "Update(%d)" % valof(Q, k)
    if valof(P, k) is not None:
        P1, Q1, old = slru_promote(P, Q, qcap, k, v)
        return P1, Q1, "Update(%d)" % old
    if len(P) >= pcap:
        return [(k, v)] + P[:-1], Q, "Evicted(%d:%d)" % P[-1]
    return [(k, v)] + P, Q, "Put"


def slru_get(P, Q, qcap, k, w=None):
    if valof(Q, k) is not None:
        old = valof(Q, k)
        return P, [(k, old if w is None else w)] + without(Q, k), "some %d" % old
    if valof(P, k) is not None:
        P1, Q1, old = slru_promote(P, Q, qcap, k, w)
        return P1, Q1, "some %d" % old
    return P, Q, "none"


def walk(case, comp_ok):
    """yield (i, line, toks, prev_state, state) for op lines with a state on both sides"""
    prev = prev_state(case, 0)
    for i, (l, st) in enumerate(states_of(case)):
        if l.out is None or l.panic:
            return
        toks = l.lhs.split()
        if toks[0] in ("clone", "clonefrom", "dropalt", "census"):
            continue
        if toks[0] == "swap":
            prev = parse_state(case.comp, l.pos[0] if l.pos else "")
            continue
        if st is None:
            continue
        if prev is not None:
            yield i, l, toks, prev, st
        prev = st


def expect(fails, case, i, what, exp, got):
    if exp != got:
        fails.append(Fail(case, i, "%s: policy says %s, implementation has %s" % (what, exp, got)))


def mon_C07(case):
    fails = []
    if case.comp != "slru":
        return fails
    pcap, qcap = int(case.params["pcap"]), int(case.params["qcap"])
    for i, l, toks, prev, st in walk(case, None):
        op = toks[0]
        P, Q = prev["lists"]["prob"], prev["lists"]["prot"]
        P2, Q2 = st["lists"]["prob"], st["lists"]["prot"]
        res = l.pos[0]
        if op == "put":
            eP, eQ, eres = slru_put(P, Q, pcap, qcap, int(toks[1]), int(toks[2]))
            expect(fails, case, i, "probationary", eP, P2)
            expect(fails, case, i, "protected", eQ, Q2)
            expect(fails, case, i, "result", eres, res)
        elif op in ("get", "getmut"):
            w = int(toks[2]) if op == "getmut" and int(toks[2]) != 0 else None
            eP, eQ, eres = slru_get(P, Q, qcap, int(toks[1]), w)
            expect(fails, case, i, "probationary", eP, P2)
            expect(fails, case, i, "protected", eQ, Q2)
            expect(fails, case, i, "result", eres, res)
        elif op == "putprotected":
            k, v = int(toks[1]), int(toks[2])
            if not Q2 or Q2[0] != (k, v):
                fails.append(Fail(case, i, "put_protected: key must be the most recent protected entry, protected is %s" % Q2))
            if valof(P2, k) is not None:
                fails.append(Fail(case, i, "put_protected: key is still in the probationary segment %s" % P2))
            if [e for e in P2 if e[0] != k] != [e for e in P if e[0] != k]:
                fails.append(Fail(case, i, "put_protected changed other probationary entries: %s -> %s" % (P, P2)))
        elif op in ("peek", "contains", "len", "cap", "isempty", "problen", "protlen", "probcap", "protcap",
                    "peeklruprob", "peekmruprob", "peeklruprot", "peekmruprot"):
            expect(fails, case, i, "probationary", P, P2)
            expect(fails, case, i, "protected", Q, Q2)
            if op == "peeklruprob":
                expect(fails, case, i, "result", "some %d:%d" % P[-1] if P else "none", res)
            elif op == "peekmruprob":
                expect(fails, case, i, "result", "some %d:%d" % P[0] if P else "none", res)
            elif op == "peeklruprot":
                expect(fails, case, i, "result", "some %d:%d" % Q[-1] if Q else "none", res)
            elif op == "peekmruprot":
                expect(fails, case, i, "result", "some %d:%d" % Q[0] if Q else "none", res)
        elif op == "removelruprob":
            expect(fails, case, i, "probationary", P[:-1], P2)
            expect(fails, case, i, "result", "some %d:%d" % P[-1] if P else "none", res)
        elif op == "removelruprot":
            expect(fails, case, i, "protected", Q[:-1], Q2)
            expect(fails, case, i, "result", "some %d:%d" % Q[-1] if Q else "none", res)
    return fails


def mon_C08(case):
    fails = []
    if case.comp != "twoq" or case.head.out != "ok":
        return fails
    size = int(case.params["size"])
    rs = int(size * f64_of(case.params["rr"]) // 1)
    gcap = int(size * f64_of(case.params["gr"]) // 1)
    for i, l, toks, prev, st in walk(case, None):
        op = toks[0]
        R, F, G = prev["lists"]["recent"], prev["lists"]["frequent"], prev["lists"]["ghost"]
        R2, F2, G2 = st["lists"]["recent"], st["lists"]["frequent"], st["lists"]["ghost"]
        res = l.pos[0]
        if st["extra"].get("rs") != rs or st["caps"].get("ghost") != gcap:
            fails.append(Fail(case, i, "quota/ghost bound are %s/%s, floor(size*ratio) gives %d/%d" % (st["extra"].get("rs"), st["caps"].get("ghost"), rs, gcap)))
            break
        eR = eF = eG = eres = None
        if op == "put":
            k, v = int(toks[1]), int(toks[2])
            if valof(F, k) is not None:
                eR, eF, eG, eres = R, [(k, v)] + without(F, k), G, "Update(%d)" % valof(F, k)
            elif valof(R, k) is not None:
                eR, eF, eG, eres = without(R, k), [(k, v)] + F, G, "Update(%d)" % valof(R, k)
            else:
                full = len(R) + len(F) >= size
                ghost_hit = valof(G, k) is not None
                R1, F1, G1 = list(R), list(F), list(G)
                dropped = None
                if full:
                    over = (len(R) > rs) if ghost_hit else (len(R) >= rs)
                    if len(R) > 0 and (over or len(F) == 0):
                        vic, R1 = R1[-1], R1[:-1]
                    else:
                        vic, F1 = F1[-1], F1[:-1]
                    if len(G1) >= gcap:
                        dropped, G1 = G1[-1], G1[:-1]
                    G1 = [vic] + G1
                if ghost_hit:
                    old = valof(G, k)
                    G1 = without(G1, k)
                    F1 = [(k, v)] + F1
                    if dropped is not None and dropped[0] != k:
                        eres = "EvictedAndUpdate(%d:%d,%d)" % (dropped[0], dropped[1], old)
                    else:
                        eres = "Update(%d)" % old
                else:
                    R1 = [(k, v)] + R1
                    eres = "Evicted(%d:%d)" % dropped if dropped is not None else "Put"
                eR, eF, eG = R1, F1, G1
        elif op in ("get", "getmut"):
            k = int(toks[1])
            w = int(toks[2]) if op == "getmut" and int(toks[2]) != 0 else None
            if valof(F, k) is not None:
                old = valof(F, k)
                eR, eF, eG, eres = R, [(k, old if w is None else w)] + without(F, k), G, "some %d" % old
            elif valof(R, k) is not None:
                old = valof(R, k)
                eR, eF, eG, eres = without(R, k), [(k, old if w is None else w)] + F, G, "some %d" % old
            else:
                eR, eF, eG, eres = R, F, G, "none"
        elif op in ("peek", "contains", "len", "cap", "isempty", "recentlen", "frequentlen", "ghostlen"):
            eR, eF, eG = R, F, G
        if eR is not None:
            expect(fails, case, i, "recent queue", eR, R2)
            expect(fails, case, i, "frequent queue", eF, F2)
            expect(fails, case, i, "ghost list", eG, G2)
        if eres is not None:
            expect(fails, case, i, "result", eres, res)
    return fails


def arc_replace(T1, T2, B1, B2, p, size, hit_b2):
    T1, T2, B1, B2 = list(T1), list(T2), list(B1), list(B2)
    if len(T1) > 0 and (len(T1) > p or (len(T1) == p and hit_b2) or len(T2) == 0):
        vic, T1 = T1[-1], T1[:-1]
        if len(B1) >= size:
            B1 = B1[:-1]
        B1 = [vic] + B1
    elif T2:
        vic, T2 = T2[-1], T2[:-1]
        if len(B2) >= size:
            B2 = B2[:-1]
        B2 = [vic] + B2
    return T1, T2, B1, B2


def mon_C09(case):
    fails = []
    if case.comp != "arc":
        return fails
    size = int(case.params["size"])
    for i, l, toks, prev, st in walk(case, None):
        op = toks[0]
        L, L2 = prev["lists"], st["lists"]
        T1, T2, B1, B2, p = L["recent"], L["frequent"], L["recentevict"], L["frequentevict"], prev["extra"]["p"]
        p2 = st["extra"]["p"]
        res = l.pos[0]
        if p2 > size:
            fails.append(Fail(case, i, "adaptation target p=%d exceeds the size %d" % (p2, size)))
        exp = None
        check_ghosts = True
        if op == "put":
            k, v = int(toks[1]), int(toks[2])
            full = len(T1) + len(T2) >= size
            if valof(T1, k) is not None:
                exp = (without(T1, k), [(k, v)] + T2, B1, B2, p, "Update(%d)" % valof(T1, k))
            elif valof(T2, k) is not None:
                exp = (T1, [(k, v)] + without(T2, k), B1, B2, p, "Update(%d)" % valof(T2, k))
            elif valof(B1, k) is not None:
                delta = max(1, len(B2) // len(B1))
                np_ = min(size, p + delta)
                a = (T1, T2, without(B1, k), B2)
                if full:
                    a = arc_replace(a[0], a[1], a[2], a[3], np_, size, False)
                exp = (a[0], [(k, v)] + a[1], a[2], a[3], np_, "Update(%d)" % valof(B1, k))
            elif valof(B2, k) is not None:
                delta = max(1, len(B1) // len(B2))
                np_ = p - min(p, delta)
                a = (T1, T2, B1, without(B2, k))
                if full:
                    a = arc_replace(a[0], a[1], a[2], a[3], np_, size, True)
                exp = (a[0], [(k, v)] + a[1], a[2], a[3], np_, "Update(%d)" % valof(B2, k))
            else:
                a = (T1, T2, B1, B2)
                if full:
                    a = arc_replace(T1, T2, B1, B2, p, size, False)
                exp = ([(k, v)] + a[0], a[1], None, None, p, "Put")
                check_ghosts = False      # ghost trimming on a miss is not part of the policy statement
        elif op in ("get", "getmut"):
            k = int(toks[1])
            w = int(toks[2]) if op == "getmut" and int(toks[2]) != 0 else None
            if valof(T1, k) is not None:
                old = valof(T1, k)
                exp = (without(T1, k), [(k, old if w is None else w)] + T2, B1, B2, p, "some %d" % old)
            elif valof(T2, k) is not None:
                old = valof(T2, k)
                exp = (T1, [(k, old if w is None else w)] + without(T2, k), B1, B2, p, "some %d" % old)
            else:
                exp = (T1, T2, B1, B2, p, "none")
        elif op in ("peek", "contains", "len", "cap", "isempty", "partition", "recentlen", "frequentlen", "recentevictlen", "frequentevictlen"):
            exp = (T1, T2, B1, B2, p, None)
        if exp is not None:
            expect(fails, case, i, "recent list", exp[0], L2["recent"])
            expect(fails, case, i, "frequent list", exp[1], L2["frequent"])
            if check_ghosts:
                expect(fails, case, i, "recent ghost list", exp[2], L2["recentevict"])
                expect(fails, case, i, "frequent ghost list", exp[3], L2["frequentevict"])
            expect(fails, case, i, "adaptation target p", exp[4], p2)
            if exp[5] is not None:
                expect(fails, case, i, "result", exp[5], res)
    return fails


class PyTiny:
    """the estimator as the property describes it, run on the implementation's own dump"""

    def __init__(self, env, dump, samples):
        m = re.match(r"^w=(\d+) rows=([0-9a-f/]*) door=([0-9a-f.]*)$", dump)
        self.w = int(m.group(1))
        self.rows = [bytearray.fromhex(r) for r in m.group(2).split("/")]
        self.door = [int(x, 16) for x in m.group(3).split(".")] if m.group(3) else []
        self.samples = samples
        e = dict(t.split("=", 1) for t in env.split()[1:])
        self.core = e["scheme"] == "core"
        self.seeds = [int(x, 16) for x in e.get("seeds", "").split(",")] if not self.core else []
        self.mask = int(e["mask"], 16)
        self.bmask, self.blocs, self.bshift = int(e["bmask"]), int(e["blocs"]), int(e["bshift"])

    def pos(self, i, h):
        if self.core:
            return ((h + i * (h >> 32)) & MASK64) & self.mask
        return (h ^ self.seeds[i]) & self.mask

    def ctr(self, i, h):
        p = self.pos(i, h)
        b = self.rows[i][p // 2]
        return (b >> ((p & 1) * 4)) & 0xF

    def bits(self, h):
        hh = h >> self.bshift
        ll = ((h << self.bshift) & MASK64) >> self.bshift
        return [(hh + j * ll) & self.bmask for j in range(self.blocs)]

    def has(self, h):
        return all((self.door[b >> 6] >> (b % 64)) & 1 for b in self.bits(h))

    def est(self, h):
        return min(self.ctr(i, h) for i in range(4)) + (1 if self.has(h) else 0)

    def try_reset(self):
        self.w += 1
        if self.w >= self.samples:
            self.w = 0
            self.door = [0] * len(self.door)
            for r in self.rows:
                for j in range(len(r)):
                    r[j] = (r[j] >> 1) & 0x77

    def inc(self, h):
        if not self.has(h):
            for b in self.bits(h):
                self.door[b >> 6] |= 1 << (b % 64)
        else:
            for i in range(4):
                p = self.pos(i, h)
                if self.ctr(i, h) < 15:
                    self.rows[i][p // 2] += 1 << ((p & 1) * 4)
        self.try_reset()

    def dump(self):
        return "w=%d rows=%s door=%s" % (self.w, "/".join(r.hex() for r in self.rows), ".".join("%016x" % x for x in self.door))


MASK64 = (1 << 64) - 1


def mon_C10(case):
    fails = []
    if case.comp != "wtinylfu" or case.head.out != "ok":
        return fails
    P_ = case.params
    wcap, pcap, qcap, samples = int(P_["wcap"]), int(P_["pcap"]), int(P_["qcap"]), int(P_["samples"])
    env = next((e.lhs for e in case.env if e.lhs.startswith("env ")), None)
    kh = {int(e.lhs.split()[1]): int(e.lhs.split()[2], 16) for e in case.env if e.lhs.startswith("kh ")}
    if env is None:
        return fails
    for i, l, toks, prev, st in walk(case, None):
        if prev["extra"].get("est") is None:
            # the very first operation: the estimator is all zero
            words = int(dict(t.split("=", 1) for t in env.split()[1:])["bwords"])
            m = re.match(r"^w=\d+ rows=([0-9a-f/]*) ", st["extra"]["est"])
            rows = "/".join("0" * len(r) for r in m.group(1).split("/"))
            prev = dict(prev, extra={"est": "w=0 rows=%s door=%s" % (rows, ".".join(["0" * 16] * words))})
        op = toks[0]
        W, P, Q = prev["lists"]["window"], prev["lists"]["prob"], prev["lists"]["prot"]
        W2, P2, Q2 = st["lists"]["window"], st["lists"]["prob"], st["lists"]["prot"]
        res = l.pos[0]
        est = PyTiny(env, prev["extra"]["est"], samples)
        exp = None
        eest = prev["extra"]["est"]
        if op == "put":
            k, v = int(toks[1]), int(toks[2])
            if valof(W, k) is not None:
                old = valof(W, k)
                W1 = without(W, k)
                Q1 = list(Q)
                if len(Q) >= qcap:
                    W1 = [Q[-1]] + W1
                    Q1 = Q[:-1]
                exp = (W1, P, [(k, v)] + Q1, "Update(%d)" % old)
            elif valof(P, k) is not None or valof(Q, k) is not None:
                eP, eQ, eres = slru_put(P, Q, pcap, qcap, k, v)
                exp = (W, eP, eQ, eres)
            elif len(W) < wcap:
                exp = ([(k, v)] + W, P, Q, "Put")
            else:
                cand = W[-1]
                W1 = [(k, v)] + W[:-1]
                if len(P) + len(Q) < pcap + qcap:
                    eP, eQ, eres = slru_put(P, Q, pcap, qcap, cand[0], cand[1])
                    exp = (W1, eP, eQ, eres)
                else:
                    vic = P[-1] if P else None
                    if vic is not None and est.est(kh.get(cand[0], 0)) < est.est(kh.get(vic[0], 0)):
                        exp = (W1, P, Q, "Evicted(%d:%d)" % cand)
                    else:
                        eP, eQ, eres = slru_put(P, Q, pcap, qcap, cand[0], cand[1])
                        exp = (W1, eP, eQ, eres)
        elif op in ("get", "getmut"):
            k = int(toks[1])
            w = int(toks[2]) if op == "getmut" and int(toks[2]) != 0 else None
            est.try_reset()
            est.inc(kh.get(k, 0))
            eest = est.dump()
            if valof(W, k) is not None:
                old = valof(W, k)
                exp = ([(k, old if w is None else w)] + without(W, k), P, Q, "some %d" % old)
            else:
                eP, eQ, eres = slru_get(P, Q, qcap, k, w)
                exp = (W, eP, eQ, eres)
        elif op == "purge":
            est.w = 0
            est.door = [0] * len(est.door)
            est.rows = [bytearray(len(r)) for r in est.rows]
            eest = est.dump()
            exp = ([], [], [], None)
        elif op in ("peek", "contains", "len", "cap", "isempty", "windowlen", "windowcap", "mainlen", "maincap", "debug"):
            exp = (W, P, Q, None)
        if exp is not None:
            expect(fails, case, i, "window", exp[0], W2)
            expect(fails, case, i, "probationary", exp[1], P2)
            expect(fails, case, i, "protected", exp[2], Q2)
            if exp[3] is not None:
                expect(fails, case, i, "result", exp[3], res)
            if st["extra"]["est"] != eest:
                fails.append(Fail(case, i, "estimator after %s: expected %s, implementation has %s" % (op, eest, st["extra"]["est"])))
    return fails


MONITORS.update({"C07": mon_C07, "C08": mon_C08, "C09": mon_C09, "C10": mon_C10})


# ---------------------------------------------------------------------------------------------
# cases whose lists are printed as digests (`#<len>:<hash>`, lists of more than 96 entries): the oracles that replay the
# policy on the printed lists cannot be evaluated there (the comparison with the model still is); they must not judge
# from a stale earlier state either, so such a case is left to the correspondence check alone
# ---------------------------------------------------------------------------------------------
_DIGEST = re.compile(r"#\d+:[0-9a-f]{16}")


def _guard(mon):
    def wrapped(case):
        if any(l.out and _DIGEST.search(l.out) for l in case.lines):
            return []
        return mon(case)
    return wrapped


for _k in list(MONITORS):
    if _k not in ("C03", "C05"):
        MONITORS[_k] = _guard(MONITORS[_k])
