#!/bin/bash
# re-run every seeded change against the CURRENT machinery: apply the patch to /repo, run the target property's quick check,
# undo. Output: one line per seed in work/reseed.log (never touches the committed evidence).
cd /verif
export VERIF_EVIDENCE_DIR=/verif/work/evidence-scratch
: > work/reseed.log
for d in seeded/C*; do
  n=$(basename $d)
  p=${n:0:3}
  if ! git -C /repo apply --check /verif/$d/patch.diff 2>/dev/null; then
    echo "$n: patch-does-not-apply" | tee -a work/reseed.log
    continue
  fi
  git -C /repo apply /verif/$d/patch.diff
  out=$(timeout 1500 bin/check $p quick 2>&1 | grep -E "^(VIOLATION|OK)")
  git -C /repo checkout -- .
  nv=$(echo "$out" | grep -c "^VIOLATION")
  nc=$(echo "$out" | grep "^VIOLATION" | grep -vc "no-failing-input-found")
  echo "$n: violations=$nv concrete=$nc" | tee -a work/reseed.log
done
