#!/usr/bin/env python3
"""rustdoc JSON  ->  lean/Caches/Generated/Signatures.lean  (+ probe programs for C19).

The table is regenerated from /repo's CURRENT source on every run:
  * every public method / trait method of the cache and iterator types whose return type carries a
    lifetime (a reference, or a lifetime-parameterised type such as an iterator), with the origin of every
    output lifetime: elided, the receiver's, a lifetime parameter of the Self type, a lifetime parameter
    declared on the function itself, or 'static;
  * every `Send`/`Sync` impl of those types (hand-written and compiler-synthesised) with its bounds.
"""
import json
import os
import sys

CACHE_TYPES = ["RawLRU", "SegmentedCache", "TwoQueueCache", "AdaptiveCache", "WTinyLFUCache"]
ITER_TYPES = ["MRUIter", "LRUIter", "MRUIterMut", "LRUIterMut", "KeysMRUIter", "KeysLRUIter",
              "ValuesMRUIter", "ValuesLRUIter", "ValuesMRUIterMut", "ValuesLRUIterMut"]
TYPES = CACHE_TYPES + ITER_TYPES


def lifetimes_in(ty, out):
    """collect lifetimes ('elided' for omitted ones) appearing in a type"""
    if ty is None:
        return
    if isinstance(ty, list):
        for t in ty:
            lifetimes_in(t, out)
        return
    if not isinstance(ty, dict):
        return
    if "borrowed_ref" in ty:
        b = ty["borrowed_ref"]
        out.append((b["lifetime"] or "'_", b["is_mutable"]))
        lifetimes_in(b["type"], out)
    elif "resolved_path" in ty:
        args = ty["resolved_path"].get("args")
        if args and "angle_bracketed" in args:
            for a in args["angle_bracketed"]["args"]:
                if "lifetime" in a:
                    out.append((a["lifetime"], None))
                elif "type" in a:
                    lifetimes_in(a["type"], out)
    elif "tuple" in ty:
        lifetimes_in(ty["tuple"], out)
    elif "slice" in ty:
        lifetimes_in(ty["slice"], out)
    elif "array" in ty:
        lifetimes_in(ty["array"]["type"], out)
    elif "raw_pointer" in ty:
        pass
    elif "qualified_path" in ty:
        pass


def type_name(ty):
    if "resolved_path" in ty:
        return ty["resolved_path"]["path"].split("::")[-1]
    if "borrowed_ref" in ty:
        return type_name(ty["borrowed_ref"]["type"])
    return None


def self_lifetimes(for_ty):
    out = []
    lifetimes_in(for_ty, out)
    return [l for l, _ in out]


def arg_expr(ty):
    """a concrete argument for the probes (K = V = u64)"""
    if "borrowed_ref" in ty:
        inner = ty["borrowed_ref"]["type"]
        if "generic" in inner:
            return "&1u64"
        return None
    if "generic" in ty:
        return {"K": "1u64", "V": "2u64", "Q": None}.get(ty["generic"])
    if "primitive" in ty:
        return {"usize": "1usize", "u64": "1u64"}.get(ty["primitive"])
    return None


def extract(path):
    d = json.load(open(path))
    idx = d["index"]
    by_name = {}
    for k, v in idx.items():
        if v.get("name") in TYPES and ("struct" in v["inner"]) and v.get("visibility") == "public":
            by_name[v["name"]] = v
    methods, markers = [], []
    clones = []        # iterator types with a `Clone` / `Copy` impl
    item_kind = {}
    sealed = {}
    for name, item in sorted(by_name.items()):
        st = item["inner"]["struct"]
        kind = st["kind"]
        gen_params = [(p["name"], "lifetime" if "lifetime" in p["kind"] else "type") for p in st["generics"]["params"]]
        sealed[name] = bool(kind.get("plain", {}).get("has_stripped_fields")) or ("plain" in kind and not kind["plain"]["fields"])
        # impls listed on the struct + impls for &T / &mut T (IntoIterator)
        impl_ids = list(st["impls"])
        for iid in impl_ids:
            imp = idx.get(str(iid))
            if imp is None:
                continue
            I = imp["inner"]["impl"]
            trait = I["trait"]["path"].split("::")[-1] if I["trait"] else ""
            if trait in ("Send", "Sync"):
                bounds = {}
                for p in I["generics"]["params"]:
                    if "type" in p["kind"]:
                        bs = [b["trait_bound"]["trait"]["path"].split("::")[-1] for b in p["kind"]["type"]["bounds"] if "trait_bound" in b]
                        bounds[p["name"]] = [b for b in bs if b in ("Send", "Sync")]
                for wp in I["generics"]["where_predicates"]:
                    bp = wp.get("bound_predicate")
                    if bp and "generic" in bp["type"]:
                        bs = [b["trait_bound"]["trait"]["path"].split("::")[-1] for b in bp["bounds"] if "trait_bound" in b]
                        bounds.setdefault(bp["type"]["generic"], [])
                        bounds[bp["type"]["generic"]] += [b for b in bs if b in ("Send", "Sync")]
                markers.append(dict(ty=name, marker=trait, bounds=bounds, synthetic=I["is_synthetic"], negative=I["is_negative"],
                                    params=gen_params))
                continue
            if I["is_synthetic"] or I["blanket_impl"]:
                continue
            if trait in ("Clone", "Copy") and name in ITER_TYPES:
                clones.append(name)
            if trait not in ("", "Cache", "ResizableCache", "Iterator", "DoubleEndedIterator", "IntoIterator"):
                continue
            self_lts = self_lifetimes(I["for"])
            for fid in I["items"]:
                f = idx.get(str(fid))
                if f is not None and trait == "Iterator" and "assoc_type" in f["inner"] and f.get("name") == "Item":
                    its = []
                    lifetimes_in(f["inner"]["assoc_type"].get("type"), its)
                    item_kind[name] = "mutIter" if any(m for _l, m in its if m) else "sharedIter"
                if f is None or "function" not in f["inner"]:
                    continue
                if trait == "" and f.get("visibility") != "public":
                    continue
                fn = f["inner"]["function"]
                outs = []
                lifetimes_in(fn["sig"]["output"], outs)
                if not outs:
                    continue
                fn_lts = [p["name"] for p in fn["generics"]["params"] if "lifetime" in p["kind"]]
                inputs = fn["sig"]["inputs"]
                recv, recv_lt = "none", None
                if inputs and inputs[0][0] == "self":
                    t0 = inputs[0][1]
                    if "borrowed_ref" in t0:
                        recv = "refMut" if t0["borrowed_ref"]["is_mutable"] else "ref"
                        recv_lt = t0["borrowed_ref"]["lifetime"]
                    else:
                        recv = "value"
                origins = []
                for lt, _m in outs:
                    if lt == "'_":
                        origins.append("elided")
                    elif lt == "'static":
                        origins.append("static")
                    elif recv_lt is not None and lt == recv_lt and recv_lt != "'_":
                        origins.append("recv")
                    elif lt in fn_lts:
                        origins.append("fnParam")
                    elif lt in self_lts:
                        origins.append("selfParam")
                    else:
                        origins.append("fnParam")
                mutable_out = any(m for _l, m in outs if m)
                args = [arg_expr(t) for n, t in inputs[1:]] if inputs and inputs[0][0] == "self" else None
                label = name
                if "borrowed_ref" in I["for"]:
                    label = "&" + ("mut " if I["for"]["borrowed_ref"]["is_mutable"] else "") + name
                methods.append(dict(ty=label, trait=trait, method=f["name"], recv=recv, outs=origins,
                                    args=args, mut_out=mutable_out, out_is_iter=type_name(fn["sig"]["output"]) in ITER_TYPES,
                                    out_ty=type_name(fn["sig"]["output"])))
    iter_kind = dict(item_kind)
    for m in methods:
        if m["trait"] == "Iterator" and m["method"] == "next":
            iter_kind[m["ty"]] = "mutIter" if m["mut_out"] else "sharedIter"
    # exclusive access in the result: a `&mut` somewhere in the return type, or a value of one of the mutable iterator types
    for m in methods:
        m["excl_out"] = bool(m["mut_out"] or iter_kind.get(m.get("out_ty")) == "mutIter")
    extract.clones = sorted(set(clones))
    return methods, markers, sealed, iter_kind


def lean_str(s):
    return '"' + s.replace('"', '\\"') + '"'


def emit_lean(methods, markers, sealed, iter_kind, path):
    L = []
    L.append("/- GENERATED by tools/sigtable.py from rustdoc JSON of /repo's current source. Do not edit. -/")
    L.append("import Caches.Model.Api19")
    L.append("namespace M.Gen")
    L.append("open M.Api19")
    L.append("def methods : List Sig := [")
    rows = []
    for m in methods:
        base = m["ty"].replace("&mut ", "").replace("&", "")
        rows.append("  { ty := .%s, trait := %s, method := %s, recv := .%s, outs := [%s], selfSealed := %s, exclOut := %s }" % (
            m["ty"].replace("&mut ", "refMut").replace("&", "ref"), lean_str(m["trait"]), lean_str(m["method"]), m["recv"],
            ", ".join("." + o for o in m["outs"]), "true" if sealed.get(base, False) else "false",
            "true" if m.get("excl_out") else "false"))
    L.append(",\n".join(rows))
    L.append("]")
    L.append("def markerImpls : List MarkerImpl := [")
    rows = []
    for mk in markers:
        if mk["negative"]:
            continue
        kind = "owner" if mk["ty"] in CACHE_TYPES else iter_kind.get(mk["ty"], "sharedIter")
        bs = []
        for p, b in sorted(mk["bounds"].items()):
            role = {"K": ".key", "V": ".val"}.get(p, ".other")
            bs.append("(%s, [%s])" % (role, ", ".join("." + x.lower() for x in b)))
        rows.append("  { ty := .%s, kind := .%s, marker := .%s, synthetic := %s, bounds := [%s] }" % (
            mk["ty"], kind, mk["marker"].lower(), "true" if mk["synthetic"] else "false", ", ".join(bs)))
    L.append(",\n".join(rows))
    L.append("]")
    L.append("/-- iterator types that implement `Clone` (or `Copy`), with what they hand out -/")
    L.append("def clonedIters : List (Ty × Kind) := [" + ", ".join("(.%s, .%s)" % (t, iter_kind.get(t, "sharedIter")) for t in getattr(extract, "clones", [])) + "]")
    L.append("end M.Gen")
    os.makedirs(os.path.dirname(path), exist_ok=True)
    txt = "\n".join(L) + "\n"
    old = open(path).read() if os.path.exists(path) else None
    if old != txt:
        open(path, "w").write(txt)
    return txt


if __name__ == "__main__":
    ms, mk, sealed, ik = extract(sys.argv[1])
    print(len(ms), "methods", len(mk), "marker impls")
    for m in ms:
        if any(o not in ("elided", "recv") for o in m["outs"]):
            print("  ", m["ty"], m["trait"], m["method"], m["recv"], m["outs"])
    for x in mk:
        print("  ", x)
    if len(sys.argv) > 2:
        emit_lean(ms, mk, sealed, ik, sys.argv[2])
