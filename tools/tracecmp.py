"""Parsing and comparing traces (implementation output vs model output)."""
import re

NAMED = {"cb", "dr", "heap", "live", "dd", "costs", "au", "sz", "geo", "geoo"}
_named_re = re.compile(r"^([a-z]+)=(.*)$", re.S)


class Line:
    __slots__ = ("lhs", "out", "pos", "named", "raw")

    def __init__(self, raw):
        self.raw = raw
        if " => " in raw:
            self.lhs, self.out = raw.split(" => ", 1)
        else:
            self.lhs, self.out = raw, None
        self.pos, self.named = [], {}
        if self.out is not None:
            out = self.out.split(" # ")[0].rstrip()
            for f in out.split(" | "):
                if not f.strip():
                    continue
                m = _named_re.match(f)
                if m and m.group(1) in NAMED:
                    self.named[m.group(1)] = m.group(2)
                else:
                    self.pos.append(f)

    @property
    def op(self):
        return self.lhs.split()[0] if self.lhs.split() else ""

    @property
    def panic(self):
        return self.out is not None and self.out.startswith("PANIC")


class Case:
    def __init__(self, head):
        self.head = Line(head)
        toks = self.head.lhs.split()
        self.cid = int(toks[1])
        self.comp = toks[2]
        self.params = dict(t.split("=", 1) for t in toks[3:] if "=" in t)
        self.lines = []      # op lines (incl. census/clone/...); env and kh kept apart
        self.env = []
        self.end = None
        self.crashed = False

    def script(self):
        """the bare script of this case (what gen.py produced)"""
        out = [self.head.lhs]
        out += [l.lhs for l in self.env if l.lhs.startswith("kh ")]
        out += [l.lhs for l in self.lines]
        out.append("end")
        return out


def parse_trace(text):
    cases, cur = [], None
    for raw in text.splitlines():
        raw = raw.rstrip("\n")
        if not raw or raw.startswith("#"):
            continue
        if raw.startswith("case "):
            cur = Case(raw)
            cases.append(cur)
        elif cur is None:
            continue
        elif raw.startswith("env ") or raw.startswith("kh "):
            cur.env.append(Line(raw))
        elif raw.startswith("end"):
            cur.end = Line(raw)
            cur = None
        else:
            cur.lines.append(Line(raw))
    return cases


class Mismatch:
    def __init__(self, case, idx, field, impl, model, lhs):
        self.case, self.idx, self.field, self.impl, self.model, self.lhs = case, idx, field, impl, model, lhs

    def __repr__(self):
        return "case %d (%s) line %d `%s` field=%s impl=%r model=%r" % (
            self.case.cid, self.case.comp, self.idx, self.lhs, self.field, self.impl, self.model)


def field_names(line):
    names = []
    if line.pos:
        names.append("result")
    if len(line.pos) > 1:
        names.append("state")
    return names


def cmp_lines(case, idx, a, b, fields):
    """a = impl line, b = model line; returns list of Mismatch restricted to `fields` (None = all)"""
    out = []
    if a is None or b is None:
        out.append(Mismatch(case, idx, "missing", a.raw if a else None, b.raw if b else None, (a or b).lhs))
        return out
    if a.lhs != b.lhs:
        out.append(Mismatch(case, idx, "align", a.lhs, b.lhs, a.lhs))
        return out
    if a.panic or b.panic:
        if a.panic != b.panic and (fields is None or "panic" in fields):
            out.append(Mismatch(case, idx, "panic", a.out, b.out, a.lhs))
        return out
    if a.out is None or b.out is None:
        return out
    posnames = ["result", "state"]
    for i, name in enumerate(posnames):
        av = a.pos[i] if i < len(a.pos) else None
        bv = b.pos[i] if i < len(b.pos) else None
        if av is None or bv is None:
            continue
        if av != bv and (fields is None or name in fields):
            out.append(Mismatch(case, idx, name, av, bv, a.lhs))
    for k in a.named:
        if k in b.named and a.named[k] != b.named[k] and (fields is None or k in fields):
            out.append(Mismatch(case, idx, k, a.named[k], b.named[k], a.lhs))
    return out


def compare(impl_cases, model_cases, fields=None, stop_at_first=True):
    """per case: mismatches on the selected fields. Returns dict cid -> [Mismatch]"""
    res = {}
    mc = {c.cid: c for c in model_cases}
    for ic in impl_cases:
        m = mc.get(ic.cid)
        mm = []
        if m is None:
            mm.append(Mismatch(ic, -1, "missing-case", ic.head.raw, None, ic.head.lhs))
            res[ic.cid] = mm
            continue
        # constructor verdict
        if ic.head.out != m.head.out and (fields is None or "ctor" in fields or "panic" in fields):
            mm.append(Mismatch(ic, -1, "ctor", ic.head.out, m.head.out, ic.head.lhs))
        n = max(len(ic.lines), len(m.lines))
        for i in range(n):
            a = ic.lines[i] if i < len(ic.lines) else None
            b = m.lines[i] if i < len(m.lines) else None
            if a is None or b is None:
                # one side abandoned the case (panic): already reported at the panic line
                break
            d = cmp_lines(ic, i, a, b, fields)
            mm.extend(d)
            if a.panic or b.panic:
                break
            if d and stop_at_first:
                break
        else:
            if ic.end is not None and m.end is not None and ic.end.out is not None and m.end.out is not None:
                mm.extend(cmp_lines(ic, n, ic.end, m.end, fields))
        if ic.crashed and (fields is None or "panic" in fields):
            mm.append(Mismatch(ic, len(ic.lines), "crash", "process died", None, ic.head.lhs))
        if mm:
            res[ic.cid] = mm
    return res
