"""Properties decided by their own drivers: C19 (API soundness; table regenerated from rustdoc JSON +
compile probes) and C18 (panic safety; fault-injection executor, see c18.py)."""
import json
import os
import re
import subprocess
import time
from concurrent.futures import ThreadPoolExecutor

import sigtable

ROOT = os.path.dirname(os.path.dirname(os.path.abspath(__file__)))
LEAN = os.path.join(ROOT, "lean")
WORK = os.path.join(ROOT, "work")

CTOR = {
    "RawLRU": "RawLRU::<u64, u64>::new(2).unwrap()",
    "SegmentedCache": "SegmentedCache::<u64, u64>::new(2, 2).unwrap()",
    "TwoQueueCache": "TwoQueueCache::<u64, u64>::new(4).unwrap()",
    "AdaptiveCache": "AdaptiveCache::<u64, u64>::new(4).unwrap()",
    "WTinyLFUCache": "WTinyLFUCache::<u64, u64>::with_sizes(1, 2, 2, 5).unwrap()",
}
BORROW_ERRS = {"E0499", "E0502", "E0505", "E0506", "E0597", "E0716", "E0503", "E0515", "E0501"}
PRELUDE = """#![allow(unused)]
use caches::*;
use caches::lru::*;
fn touch<T>(_t: T) {}
"""
MARKER_PRELUDE = """#![allow(unused)]
use caches::*;
use caches::lru::*;
use std::hash::{BuildHasher, Hash, Hasher};
use std::borrow::Borrow;
// exactly one marker missing each, so that a bound demanding the WRONG marker is seen:
//   LacksSend: Sync but not Send (a MutexGuard);  LacksSync: Send but not Sync (a Cell)
// each can stand for a key, a value, an eviction callback, a BuildHasher or a KeyHasher
struct LacksSend(std::sync::MutexGuard<'static, u8>);
struct LacksSync(std::cell::Cell<u8>);
macro_rules! everything {
    ($t:ty) => {
        impl Hash for $t { fn hash<H: Hasher>(&self, _h: &mut H) {} }
        impl PartialEq for $t { fn eq(&self, _: &Self) -> bool { true } }
        impl Eq for $t {}
        impl BuildHasher for $t {
            type Hasher = std::collections::hash_map::DefaultHasher;
            fn build_hasher(&self) -> Self::Hasher { std::collections::hash_map::DefaultHasher::new() }
        }
        impl OnEvictCallback for $t { fn on_evict<K, V>(&self, _: &K, _: &V) {} }
        impl<K: Hash + Eq> caches::lfu::KeyHasher<K> for $t {
            fn hash_key<Q>(&self, _key: &Q) -> u64 where K: Borrow<Q>, Q: Hash + Eq + ?Sized { 0 }
        }
    };
}
everything!(LacksSend);
everything!(LacksSync);
fn is_send<T: Send>() {}
fn is_sync<T: Sync>() {}
"""


def call_expr(m):
    """expression calling method m on `c` (or None if the arguments cannot be synthesised)"""
    if m["ty"] == "&RawLRU":
        return "(&c).into_iter()"
    if m["ty"] == "&mut RawLRU":
        return "(&mut c).into_iter()"
    if m["args"] is None or any(a is None for a in m["args"]):
        return None
    return "c.%s(%s)" % (m["method"], ", ".join(m["args"]))


def method_probes(i, m):
    base = m["ty"].replace("&mut ", "").replace("&", "")
    if base not in CTOR:
        return []
    ce = call_expr(m)
    if ce is None:
        return []
    setup = "let mut c = %s; c.put(1, 1); c.put(2, 2);" % CTOR[base]
    out = []
    out.append(("m%d_p1" % i, "hold-across-mutation", True,
                PRELUDE + "fn main() { %s let r = %s; c.purge(); touch(r); }\n" % (setup, ce)))
    out.append(("m%d_p2" % i, "outlive-the-cache", True,
                PRELUDE + "fn main() { let r; { %s r = %s; } touch(r); }\n" % (setup, ce)))
    if m["recv"] == "refMut" or m["ty"] == "&mut RawLRU" or m.get("excl_out"):
        # also for a result that gives exclusive access (`&mut V`, a `*IterMut`) whatever the receiver looks like: two
        # of them alive at once must be rejected
        out.append(("m%d_p3" % i, "two-live-results-of-a-mut-method", True,
                    PRELUDE + "fn main() { %s let a = %s; let b = %s; touch(a); touch(b); }\n" % (setup, ce, ce)))
    out.append(("m%d_ok" % i, "control", False,
                PRELUDE + "fn main() { %s let r = %s; touch(r); c.purge(); }\n" % (setup, ce)))
    return out


def default_arg(pname):
    if pname in ("K", "V"):
        return "u8"
    if pname == "E":
        return "DefaultEvictCallback"
    if pname == "KH":
        return "caches::lfu::DefaultKeyHasher<u8>"
    return "DefaultHashBuilder"


def type_expr(row, subst):
    """the type of the row with every generic parameter instantiated (defaults, except those in `subst`)"""
    args = []
    for pname, kind in row["params"]:
        if kind == "lifetime":
            args.append("'static")
        else:
            args.append(subst.get(pname, default_arg(pname)))
    return "%s<%s>" % (row["ty"], ", ".join(args))


def role_of(pname):
    return {"K": "key", "V": "val"}.get(pname, "other")


def marker_probes(i, row, req):
    """req: {role: 'send'|'sync'} as computed by the Lean `required`; one probe pair per generic parameter of the type"""
    fn = "is_send" if row["marker"] == "Send" else "is_sync"
    out = []

    def prog(subst):
        return MARKER_PRELUDE + "fn main() { %s::<%s>(); }\n" % (fn, type_expr(row, subst))
    out.append(("i%d_ok" % i, "control", False, prog({})))
    for pname, kind in row["params"]:
        if kind != "type":
            continue
        r = req.get(role_of(pname))
        if r is None:
            continue
        lacking = "LacksSend" if r == "send" else "LacksSync"
        other = "LacksSync" if r == "send" else "LacksSend"
        out.append(("i%d_%s_bad" % (i, pname), "%s lacks exactly %s" % (pname, r.capitalize()), True, prog({pname: lacking})))
        if r == "send":
            # the other marker is not required: a type lacking only Sync must be accepted
            out.append(("i%d_%s_sendonly" % (i, pname), "%s is Send but not Sync (allowed)" % pname, False, prog({pname: other})))
    return out


def compile_probe(wdir, rlib, deps, name, src):
    path = os.path.join(wdir, name + ".rs")
    open(path, "w").write(src)
    p = subprocess.run(["rustc", "--edition", "2021", "--crate-type", "bin", "--emit=metadata", "--out-dir", os.path.join(wdir, "out"),
                        "--extern", "caches=" + rlib, "-L", "dependency=" + deps, path],
                       stdout=subprocess.PIPE, stderr=subprocess.PIPE)
    err = p.stderr.decode("utf-8", "replace")
    codes = set(re.findall(r"error\[(E\d+)\]", err))
    return p.returncode, codes, err


def check_C19(pid, tier, seed, chk):
    t0 = time.time()
    wdir = os.path.join(WORK, "C19")
    os.makedirs(os.path.join(wdir, "out"), exist_ok=True)
    notes, out_lines = [], []
    env = dict(os.environ, CARGO_NET_OFFLINE="true")
    violations = 0

    def viol(kind, what, lines, tag, found=True):
        nonlocal violations
        path = chk.write_replay(pid, seed, tier, kind, what, lines, "", tag)
        out_lines.append("VIOLATION property=%s replay=%s%s" % (pid, path, "" if found else " no-failing-input-found"))
        violations += 1

    # 1. translator: rustdoc JSON of /repo's current source -> Generated/Signatures.lean
    env_doc = dict(env, CARGO_TARGET_DIR=os.path.join(WORK, "rustdoc-target"))
    p = subprocess.run(["cargo", "+nightly", "rustdoc", "--offline", "--lib", "--", "-Z", "unstable-options", "--output-format", "json"],
                       cwd="/repo", env=env_doc, stdout=subprocess.PIPE, stderr=subprocess.PIPE)
    jpath = os.path.join(WORK, "rustdoc-target", "doc", "caches.json")
    if p.returncode != 0 or not os.path.exists(jpath):
        viol("translator-break", ["rustdoc JSON could not be produced: " + p.stderr.decode()[-600:]], [], "rustdoc", False)
        finish(pid, tier, seed, t0, chk, [], {}, 0, 0, 0, notes, violations, out_lines, 0, [])
        return 1
    methods, markers, sealed, iter_kind = sigtable.extract(jpath)
    markers = [m for m in markers if not m["negative"]]
    sigtable.emit_lean(methods, markers, sealed, iter_kind, os.path.join(LEAN, "Caches", "Generated", "Signatures.lean"))

    # 2. the model's verdict per row (Lean is the decider), independent of whether the theorems still hold
    vsrc = ("import Caches.Generated.Signatures\nopen M.Api19 M.Gen\n"
            "def pr (p : Param) : String := match p with | .key => \"key\" | .val => \"val\" | .other => \"other\"\n"
            "def mk (m : Marker) : String := match m with | .send => \"send\" | .sync => \"sync\"\n"
            "#eval (methods.zipIdx.map (fun (s, i) => s!\"M {i} {tied s}\")).forM IO.println\n"
            "#eval (markerImpls.zipIdx.map (fun (x, i) => s!\"I {i} {boundsSufficient x} \" ++ \" \".intercalate (x.bounds.map (fun (b : Param × List Marker) => pr b.1 ++ \"=\" ++ mk (required x.kind x.marker b.1))))).forM IO.println\n")
    vpath = os.path.join(wdir, "Verdicts.lean")
    open(vpath, "w").write(vsrc)
    subprocess.run(["lake", "build", "Caches.Generated.Signatures"], cwd=LEAN, stdout=subprocess.PIPE, stderr=subprocess.PIPE)
    p = subprocess.run(["lake", "env", "lean", vpath], cwd=LEAN, stdout=subprocess.PIPE, stderr=subprocess.PIPE)
    vtxt = p.stdout.decode()
    tied, suff, req = {}, {}, {}
    for line in vtxt.splitlines():
        t = line.split()
        if len(t) >= 3 and t[0] == "M":
            tied[int(t[1])] = t[2] == "true"
        elif len(t) >= 3 and t[0] == "I":
            suff[int(t[1])] = t[2] == "true"
            req[int(t[1])] = dict(x.split("=") for x in t[3:])
    if len(tied) != len(methods) or len(suff) != len(markers):
        notes.append("verdict listing incomplete: %s" % (p.stderr.decode()[-300:]))

    # 3. proofs
    ok_build, blog = chk.lean_build(["Caches.Properties.C19"])
    theorems = chk.property_theorems(pid)
    proof_break = []
    if not ok_build:
        proof_break.append("lake build Caches.Properties.C19 failed: " + "\n".join(l for l in blog.splitlines() if "error" in l)[:600])
    hy = chk.hygiene()
    if hy:
        proof_break.append("forbidden constructs: " + "; ".join(hy[:5]))
    axioms, aprob = ({}, ["build failed"]) if not ok_build else chk.audit_axioms(pid, theorems, wdir)
    proof_break += aprob
    discharged = len([t for t in theorems if t in axioms and set(axioms[t]) <= chk.ALLOWED_AXIOMS]) if ok_build else 0

    # 4. probes against the real crate (stable rustc is the oracle for "rejected at compile time")
    env_b = dict(env, CARGO_TARGET_DIR=os.path.join(WORK, "probe-target"))
    p = subprocess.run(["cargo", "build", "--release", "--offline", "--lib"], cwd="/repo", env=env_b, stdout=subprocess.PIPE, stderr=subprocess.PIPE)
    rlib = os.path.join(WORK, "probe-target", "release", "libcaches.rlib")
    deps = os.path.join(WORK, "probe-target", "release", "deps")
    if p.returncode != 0:
        viol("correspondence-break", ["the crate does not build: " + p.stderr.decode()[-500:]], [], "build", False)
    probes = []
    for i, m in enumerate(methods):
        for name, what, must_reject, src in method_probes(i, m):
            probes.append(dict(name=name, what=what, must_reject=must_reject, src=src, row=("M", i)))
    # a mutable iterator must not be clonable (the probe: `.clone()` on it is rejected), a shared one may be
    CLONE_PROBE = {"MRUIterMut": "c.iter_mut()", "LRUIterMut": "c.iter_lru_mut()", "ValuesMRUIterMut": "c.values_mut()",
                   "ValuesLRUIterMut": "c.values_lru_mut()"}
    for j, (tname, expr) in enumerate(sorted(CLONE_PROBE.items())):
        src = PRELUDE + "fn main() { let mut c = %s; c.put(1, 1); let a = %s; let b = a.clone(); touch(a); touch(b); }\n" % (CTOR["RawLRU"], expr)
        probes.append(dict(name="cl%d" % j, what="clone of a mutable iterator (%s)" % tname, must_reject=True, src=src, row=("C", j)))
    for i, r in enumerate(markers):
        for name, what, must_reject, src in marker_probes(i, r, req.get(i, {})):
            probes.append(dict(name=name, what=what, must_reject=must_reject, src=src, row=("I", i)))
    if tier == "quick":
        # every row keeps its hold-across-mutation probe and its control; the other shapes for every third row
        probes = [pb for pb in probes if pb["name"].endswith(("_p1", "_ok", "_bad", "_sendonly")) or pb["row"][1] % 3 == 0 or pb["row"][0] == "C"
                  or (pb["name"].endswith("_p3") and pb["row"][0] == "M" and methods[pb["row"][1]].get("excl_out"))]

    def run(pb):
        rc, codes, err = compile_probe(wdir, rlib, deps, pb["name"], pb["src"])
        pb["rc"], pb["codes"], pb["err"] = rc, codes, err
        return pb
    with ThreadPoolExecutor(max_workers=14) as ex:
        probes = list(ex.map(run, probes))
    invalid = 0
    unprobed = [m for m in methods if not method_probes(0, m) and m["trait"] not in ("Iterator", "DoubleEndedIterator")]
    reported_rows = set()
    for pb in probes:
        kind, i = pb["row"]
        rejected = pb["rc"] != 0
        if kind == "M":
            row = methods[i]
            model_safe = tied.get(i, True)
            desc = "%s::%s (%s)" % (row["ty"], row["method"], pb["what"])
            okcodes = BORROW_ERRS
        elif kind == "C":
            row = dict(clone_probe=pb["what"])
            model_safe = True
            desc = pb["what"]
            okcodes = {"E0599", "E0277"}
        else:
            row = markers[i]
            model_safe = suff.get(i, True)
            desc = "impl %s for %s (%s)" % (row["marker"], row["ty"], pb["what"])
            okcodes = {"E0277"}
        if rejected and not (pb["codes"] & okcodes):
            invalid += 1
            notes.append("probe %s failed for an unrelated reason %s" % (pb["name"], sorted(pb["codes"])))
            continue
        if pb["must_reject"]:
            if not rejected:
                # an abusive program is accepted by the compiler: this IS the failing input
                if (kind, i) in reported_rows:
                    continue
                reported_rows.add((kind, i))
                what = ["%s: rustc accepts a program the property says must be rejected" % desc,
                        "model verdict for this row: %s" % ("tied/sufficient" if model_safe else "NOT tied / bounds insufficient (theorem %s no longer holds)" %
                                                               ("C19.all_tied" if kind == "M" else "C19.all_bounds_sufficient")),
                        "replay: rustc --edition 2021 --crate-type bin --emit=metadata --extern caches=<libcaches.rlib> <this file>  (compiles = violation)"]
                viol("oracle-failure", what, pb["src"].splitlines(), pb["name"])
            elif not model_safe:
                notes.append("row %s: model says unsafe but rustc rejects the probe %s" % (desc, pb["name"]))
        else:
            if rejected:
                if (kind, i, "c") in reported_rows:
                    continue
                reported_rows.add((kind, i, "c"))
                viol("model-disagreement", ["%s: a legitimate program is rejected by rustc: %s" % (desc, sorted(pb["codes"]))],
                     pb["src"].splitlines(), pb["name"], False)
    if proof_break and violations == 0:
        bad_rows = [methods[i] for i, ok in tied.items() if not ok] + [markers[i] for i, ok in suff.items() if not ok]
        what = ["proof-break: " + x for x in proof_break] + ["rows rejected by the model: %s" % json.dumps(bad_rows)[:800]]
        viol("proof-break", what, [], "proof", False)
    finish(pid, tier, seed, t0, chk, theorems, axioms, discharged, len(probes), invalid, notes, violations, out_lines,
           len(methods) + len(markers), [dict(name=pb["name"], what=pb["what"], must_reject=pb["must_reject"], rustc_codes=sorted(pb["codes"]),
                                              program=pb["src"].splitlines()[-1]) for pb in probes[:3]],
           extra=dict(methods_in_table=len(methods), marker_impls_in_table=len(markers),
                      rows_not_probed=["%s::%s" % (m["ty"], m["method"]) for m in unprobed][:40]))
    for l in out_lines:
        print(l)
    if violations == 0:
        print("OK property=%s tier=%s theorems=%d/%d rows=%d probes=%d wall=%.1fs" %
              (pid, tier, discharged, len(theorems), len(methods) + len(markers), len(probes), time.time() - t0))
    return 1 if violations else 0


def finish(pid, tier, seed, t0, chk, theorems, axioms, discharged, nprobes, invalid, notes, violations, out_lines, rows, samples, extra=None):
    cov = dict(obligations=max(len(theorems), 1), discharged=discharged,
               checker_cmd="cargo +nightly rustdoc (JSON) -> tools/sigtable.py -> lake build Caches.Properties.C19; #print axioms",
               trusted_base=chk.TRUSTED + ["rustc borrow checker and auto-trait solver (oracle of the probes)", "rustdoc JSON (format 57)"],
               theorems=theorems, axioms=axioms, programs=nprobes, disagreements_checked=nprobes,
               evaluations=nprobes, distinct_nontrivial=nprobes - invalid,
               rule="one table row per public reference-returning method and per Send/Sync impl (regenerated from rustdoc JSON); per row the probe programs "
                    "hold-across-mutation, outlive-the-cache, double-mutable / parameter-without-the-bound, plus a positive control; non-trivial = probe whose "
                    "verdict is decided by a borrow/auto-trait error or by successful compilation",
               samples=samples, table_rows=rows, invalid_probes=invalid, notes=notes, exhaustive=(tier == "thorough"))
    if extra:
        cov.update(extra)
    chk.write_evidence(pid, tier, seed, time.time() - t0, cov,
                       ["rustc decides which programs are rejected; `tied`/`boundsSufficient` model the elision and auto-trait rules"], violations)


HANDLERS = {"C19": check_C19}


# ---------------------------------------------------------------------------------------------
# C18 panic safety
# ---------------------------------------------------------------------------------------------
def check_C18(pid, tier, seed, chk):
    import gen
    t0 = time.time()
    wdir = os.path.join(WORK, "C18")
    os.makedirs(wdir, exist_ok=True)
    notes, out_lines = [], []
    violations = 0
    ok_build, blog = chk.lean_build(["Caches.Properties.C18"])
    theorems = chk.property_theorems(pid)
    proof_break = []
    if not ok_build:
        proof_break.append("lake build Caches.Properties.C18 failed: " + "\n".join(l for l in blog.splitlines() if "error" in l)[:600])
    hy = chk.hygiene()
    if hy:
        proof_break.append("forbidden constructs: " + "; ".join(hy[:5]))
    axioms, aprob = ({}, ["build failed"]) if not ok_build else chk.audit_axioms(pid, theorems, wdir)
    proof_break += aprob
    discharged = len([t for t in theorems if t in axioms and set(axioms[t]) <= chk.ALLOWED_AXIOMS]) if ok_build else 0

    ok_h, hlog, exe = chk.harness_build(False)
    fexe = os.path.join(os.path.dirname(exe), "faultscan")
    if not ok_h or not os.path.exists(fexe):
        path = chk.write_replay(pid, seed, tier, "correspondence-break", ["harness does not build: " + hlog[-500:]], [], "", "build")
        print("VIOLATION property=%s replay=%s no-failing-input-found" % (pid, path))
        return 1
    # short histories, every user call of every operation is a crash point
    n = 240 if tier == "quick" else 1500
    nops = 18 if tier == "quick" else 22
    cases = []
    nid = 1
    for comp in ("rawlru", "slru", "twoq", "arc", "wtinylfu"):
        opts = dict(variant="keys=trk hasher=default", iter=2, clone=2)
        cs = gen.generate(comp, seed, n, nops, opts, first_id=nid)
        nid += len(cs)
        cases += cs
    # the ghost-list flows of 2Q and ARC (revival with and without a free slot, ghost list full) need a longer prefix than
    # the other paths: extra, somewhat longer histories for these two
    for comp in ("twoq", "arc"):
        opts = dict(variant="keys=trk hasher=default", iter=1, clone=0)
        cs = gen.generate(comp, seed + 1, (2 * n) // 3, nops + 10, opts, first_id=nid)
        nid += len(cs)
        cases += cs
    if tier != "quick":
        # soak: churn at full load makes the hash map of a plain LRU rehash (all keys re-hashed inside one `insert`): a panic
        # injected into that burst must leave the cache as the abort model says (entry absent, nothing lost)
        import random as _rnd
        for sk in range(2):
            r = _rnd.Random(seed * 31 + sk)
            capn = 112 if sk == 0 else 56
            lines = ["case %d rawlru cap=%d cb=0 keys=trk hasher=default stride=5 phase=%d" % (nid, capn, sk)]
            nid += 1
            cnt, live, nk = 0, [], 1000
            for k in range(1, capn + 1):
                cnt += 1
                lines.append("put %d %d" % (k, k * 100000 + cnt))
                live.append(k)
            for _ in range(260):
                k = live.pop(r.randrange(len(live)))
                lines.append("remove %d" % k)
                nk += 1
                cnt += 1
                lines.append("put %d %d" % (nk, nk * 100000 + cnt))
                live.append(nk)
            r.shuffle(live)
            for k in live[: (capn * 4) // 5]:
                lines.append("remove %d" % k)
            for _ in range(capn // 2):
                nk += 1
                cnt += 1
                lines.append("put %d %d" % (nk, nk * 100000 + cnt))
            lines.append("end")
            cases.append(lines)
    chunks = [cases[i::14] for i in range(14)]
    hangs = []

    hung = []

    def run_fs(script, limit):
        try:
            p = subprocess.run([fexe], input=script.encode(), stdout=subprocess.PIPE, stderr=subprocess.PIPE, timeout=limit)
            return p.stdout.decode("utf-8", "replace"), p.returncode
        except subprocess.TimeoutExpired as e:
            return (e.stdout or b"").decode("utf-8", "replace"), -999

    def work(chunk):
        out, crashed = [], []
        rest = chunk
        guard = 0
        while rest and guard < 20:
            guard += 1
            script = "\n".join("\n".join(c) for c in rest) + "\n"
            txt, rc = run_fs(script, 1200 if tier == "quick" else 2400)
            out.append(txt)
            if rc == 0:
                break
            done = txt.count("\nDONE ") + (1 if txt.startswith("DONE ") else 0)
            if done >= len(rest):
                break
            if rc == -999:
                # a case that does not finish: confirm it alone before calling it a hang (the machine may just be busy)
                t1, r1 = run_fs("\n".join(rest[done]) + "\n", 600)
                if r1 == -999:
                    hung.append(rest[done])
                    hangs.append(1)
                elif r1 != 0:
                    crashed.append(rest[done])
                else:
                    out.append(t1)
            else:
                crashed.append(rest[done])
            rest = rest[done + 1:]
        return "".join(out), crashed
    with ThreadPoolExecutor(max_workers=14) as ex:
        results = list(ex.map(work, chunks))
    txt = "".join(r[0] for r in results)
    crashed = [c for r in results for c in r[1]]
    open(os.path.join(wdir, "faultscan.txt"), "w").write(txt)
    total_calls = fired = 0
    sites = {}
    fails = []
    done_cases = 0
    for line in txt.splitlines():
        if line.startswith("DONE "):
            done_cases += 1
            m = re.search(r"calls=(\d+) fired=(\d+) sites=(\S*)", line)
            if m:
                total_calls += int(m.group(1))
                fired += int(m.group(2))
                for kv in m.group(3).split(","):
                    if ":" in kv:
                        k, v = kv.rsplit(":", 1)
                        sites[k] = sites.get(k, 0) + int(v)
        elif line.startswith("FAIL "):
            fails.append(line)
    # the tie between the abort-semantics model (the subject of the C18 theorems) and the code: every post-panic state of a
    # plain LRU recorded by faultscan must be one of the states the model predicts for an abort inside that operation
    inj = [l for l in txt.splitlines() if l.startswith("INJ ") or l.startswith("INJC ")]
    ninjc = sum(1 for l in inj if l.startswith("INJC "))
    abort_stats = dict(records=len(inj), plain_lru_records=len(inj) - ninjc, composite_records=ninjc, ok=0, unmodelled=0, unexpected=0, unexpected_drops=0,
                       records_with_drops=sum(1 for l in inj if "| dr=[" in l and "| dr=[]" not in l))
    acheck = os.path.join(chk.LEAN, ".lake", "build", "bin", "abortcheck")
    unexpected = []
    if inj:
        chk.sh(["lake", "build", "abortcheck"], cwd=chk.LEAN)
        if os.path.exists(acheck):
            q = subprocess.run([acheck], input=("\n".join(inj) + "\n").encode(), stdout=subprocess.PIPE, stderr=subprocess.PIPE, timeout=1800)
            for r in q.stdout.decode("utf-8", "replace").splitlines():
                if r == "ok":
                    abort_stats["ok"] += 1
                elif r.startswith("skip"):
                    abort_stats["unmodelled"] += 1
                else:
                    abort_stats["unexpected_drops" if r.startswith("UNEXPECTED-DROPS") else "unexpected"] += 1
                    unexpected.append(r)
        else:
            proof_break.append("abortcheck does not build")
    bycase = {}
    for f in fails:
        head = f[5:].split(" | ")[0]
        bycase.setdefault(head, []).append(f)
    script_of = {c[0]: c for c in cases}
    for head, fs in list(bycase.items())[:5]:
        lines = script_of.get(head, [head, "end"])
        what = ["oracle-failure: after an injected panic the cache is not memory safe"] + fs[:4] + \
               ["replay: work/harness-target/release/faultscan < this file (FAIL lines = violation)"]
        path = chk.write_replay(pid, seed, tier, "oracle-failure", what, lines, "", "f%s" % head.split()[1])
        out_lines.append("VIOLATION property=%s replay=%s" % (pid, path))
        violations += 1
    for c in crashed[:3]:
        what = ["oracle-failure: the process died (memory fault / abort) while a panic was being injected into this case",
                "replay: work/harness-target/release/faultscan < this file"]
        path = chk.write_replay(pid, seed, tier, "oracle-failure", what, c, "", "crash%s" % c[0].split()[1])
        out_lines.append("VIOLATION property=%s replay=%s" % (pid, path))
        violations += 1
    for c in hung[:3]:
        what = ["oracle-failure: after an injected panic an operation of this case did not return within 10 minutes (run alone): the cache "
                "can no longer be called",
                "replay: work/harness-target/release/faultscan < this file"]
        path = chk.write_replay(pid, seed, tier, "oracle-failure", what, c, "", "hang%s" % c[0].split()[1])
        out_lines.append("VIOLATION property=%s replay=%s" % (pid, path))
        violations += 1
    if unexpected and violations == 0:
        r = unexpected[0]
        head = re.split(r"INJC? ", r, 1)[-1].split(" | ")[0]
        what = ["model-disagreement: the state the real code is left in after this injected panic" +
                (" is one the abort-semantics model predicts, but the keys/values dropped by the unwind (dr=) are not the ones "
                 "lean/Caches/Model/AbortOwn.lean predicts for it" if r.startswith("UNEXPECTED-DROPS") else
                 " is none of the states the abort-semantics model (lean/Caches/Model/" + ("AbortG" if "INJC " in r else "Abort") + ".lean) predicts for that operation") +
                "; the memory-safety audit itself passed" +
                (" — the MODEL raised its undefined-behaviour flag on this recorded pre-state" if r.startswith("FAULT") else ""),
                "correspondence that no longer checks: abort model vs " + ("composite cache, " if "INJC " in r else "RawLRU, ") + r[:700],
                "theorems of C18 are no longer tied to this code"]
        path = chk.write_replay(pid, seed, tier, "model-disagreement", what, script_of.get(head, [head, "end"]), "", "abort%s" % (head.split()[1] if len(head.split()) > 1 else "x"))
        out_lines.append("VIOLATION property=%s replay=%s no-failing-input-found" % (pid, path))
        violations += 1
    if proof_break and violations == 0:
        path = chk.write_replay(pid, seed, tier, "proof-break", ["proof-break: " + x for x in proof_break], [], "", "proof")
        out_lines.append("VIOLATION property=%s replay=%s no-failing-input-found" % (pid, path))
        violations += 1
    cov = dict(obligations=max(len(theorems), 1), discharged=discharged,
               checker_cmd="lake build Caches.Properties.C18; #print axioms; harness faultscan (panic injected at every user call)",
               trusted_base=chk.TRUSTED + ["unwinding semantics of rustc; HashMap behaviour under a panicking Hash/Eq (hashbrown raw/mod.rs rehash guard)"],
               theorems=theorems, axioms=axioms,
               evaluations=fired, distinct_nontrivial=fired,
               rule="every case (constructor + short op history) is re-run once per call the library makes into user code (Hash, Eq, Clone, Drop of keys/values, "
                    "BuildHasher, KeyHasher, callback) with a panic injected at that call; afterwards the remaining operations and the drop are executed, with a "
                    "pointer-checked structural audit after every operation, quarantined+poisoned freed memory and serial-numbered objects; non-trivial = injection that fired",
               samples=[dict(case=c[0], ops=c[1:6]) for c in cases[:2]],
               abort_model_records=abort_stats, traces_validated_against_impl=abort_stats["ok"],
               cases=done_cases, hangs=len(hangs), user_calls=total_calls, injections_fired=fired, sites=sites, crashed_cases=len(crashed),
               notes=notes + proof_break, exhaustive=False)
    chk.write_evidence(pid, tier, seed, time.time() - t0, cov,
                       ["the abort-semantics model covers RawLRU (put, get, peek*, contains, *_or_put, remove, remove_lru, purge, resize, clone; nodes AND the "
                        "ownership of keys/values) and is compared with the real post-panic state and the real drop log of the aborted call on every "
                        "injection into a plain LRU (abort_model_records); composite caches are covered by the "
                        "fault-injection runs and by the ownership contracts of the primitives (DESIGN.md section 6/C18, 11)"], violations)
    for l in out_lines:
        print(l)
    if violations == 0:
        print("OK property=%s tier=%s theorems=%d/%d cases=%d injections=%d wall=%.1fs" %
              (pid, tier, discharged, len(theorems), done_cases, fired, time.time() - t0))
    return 1 if violations else 0


HANDLERS["C18"] = check_C18
