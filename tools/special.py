"""Properties decided by their own drivers (C18 panic safety, C19 API soundness)."""
HANDLERS = {}
