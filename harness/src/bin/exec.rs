//! Pure executor: reads an op script on stdin, runs it on the REAL caches, prints one
//! observation line per operation in the format `Main.lean` reproduces.
//!
//! case header:  case <id> <component> k=v ...   [keys=u64|str|trk] [hasher=default|random|id|zero|fnv] [pad=N]
//! followed by `kh <key> <hexhash>` lines (W-TinyLFU key hasher table), op lines, and `end`.

use caches::lfu::{KeyHasher, SampledLFU, TinyLFU};
use caches::{
    AdaptiveCache, AdaptiveCacheBuilder, Cache, DefaultEvictCallback, OnEvictCallback,
    RawLRU, ResizableCache, SegmentedCache, SegmentedCacheBuilder, TwoQueueCache,
    TwoQueueCacheBuilder, WTinyLFUCache, WTinyLFUCacheBuilder,
};
use cvh::*;
use std::borrow::Borrow;
use std::collections::HashMap;
use std::hash::{BuildHasher, Hash};
use std::io::{BufRead, Write};
use std::panic::{catch_unwind, AssertUnwindSafe};
use std::rc::Rc;

#[global_allocator]
static ALLOC: CountingAlloc = CountingAlloc;

// ---------------------------------------------------------------------------------------------
// script
// ---------------------------------------------------------------------------------------------

thread_local! {
    /// header to echo instead of the script's (a constructor that learns the effective item order sets it)
    static HEAD_OVERRIDE: std::cell::RefCell<Option<String>> = const { std::cell::RefCell::new(None) };
}

#[derive(Clone)]
struct Case {
    head: String,
    comp: String,
    params: HashMap<String, String>,
    kh: Vec<(u64, u64)>,
    ops: Vec<String>,
}

impl Case {
    fn id(&self) -> &str {
        self.head.split_whitespace().nth(1).unwrap_or("0")
    }
    fn get(&self, k: &str) -> Option<&str> {
        self.params.get(k).map(|s| s.as_str())
    }
    fn num(&self, k: &str) -> u64 {
        self.get(k).and_then(|s| s.parse().ok()).unwrap_or(0)
    }
    fn f64bits(&self, k: &str) -> f64 {
        f64::from_bits(u64::from_str_radix(self.get(k).unwrap_or("0"), 16).unwrap_or(0))
    }
}

fn parse_cases(input: &str) -> Vec<Case> {
    let mut cases = Vec::new();
    let mut cur: Option<Case> = None;
    for line in input.lines() {
        let line = line.split(" => ").next().unwrap().trim();
        if line.is_empty() || line.starts_with('#') {
            continue;
        }
        let toks: Vec<&str> = line.split_whitespace().collect();
        match toks[0] {
            "case" => {
                let mut params = HashMap::new();
                for t in &toks[3..] {
                    if let Some((k, v)) = t.split_once('=') {
                        params.insert(k.to_string(), v.to_string());
                    }
                }
                cur = Some(Case {
                    head: line.to_string(),
                    comp: toks[2].to_string(),
                    params,
                    kh: Vec::new(),
                    ops: Vec::new(),
                });
            }
            "env" => {}
            "kh" => {
                if let Some(c) = cur.as_mut() {
                    c.kh.push((
                        toks[1].parse().unwrap(),
                        u64::from_str_radix(toks[2], 16).unwrap(),
                    ));
                }
            }
            "end" => {
                if let Some(c) = cur.take() {
                    cases.push(c);
                }
            }
            _ => {
                if let Some(c) = cur.as_mut() {
                    c.ops.push(line.to_string());
                }
            }
        }
    }
    if let Some(c) = cur.take() {
        cases.push(c);
    }
    cases
}

// ---------------------------------------------------------------------------------------------
// component abstraction
// ---------------------------------------------------------------------------------------------

trait Comp: Sized {
    /// None = unknown op
    fn op(&mut self, op: &str, a: &[&str]) -> Option<String>;
    fn dump(&self) -> String;
    fn audit(&self) -> String {
        "ok".into()
    }
    fn try_clone(&self) -> Option<Self> {
        None
    }
    /// `dst.clone_from(self)`; false = not cloneable
    /// a freshly built object of the same type with a DIFFERENT configuration (sizes, sample window, seeds), used as the
    /// destination of `clone_from`: the in-place form must overwrite the destination's configuration too (round 9, C16h)
    fn fresh_other(&mut self) -> Option<Self> {
        None
    }
    fn clone_into(&self, _dst: &mut Self) -> bool {
        false
    }
    fn census(&self, _u: u64) -> String {
        "n/a".into()
    }
    /// `len,cap,is_empty` of a cache (None for the estimator / cost tracker)
    fn sizes(&self) -> Option<String> {
        None
    }
    fn has_cb(&self) -> bool {
        false
    }
    fn tracked(&self) -> bool {
        false
    }
    fn env(&self) -> Vec<String> {
        Vec::new()
    }
    /// configuration that the state dump does not show (capacities of the parts, sketch seeds and masks, doorkeeper
    /// geometry): printed once at the header and on every `clone`/`clonefrom`, where it must be the original's
    fn geo(&self) -> Option<String> {
        self.env().first().map(|e| e.replace(' ', ","))
    }
}

fn nums(a: &[&str]) -> Vec<u64> {
    a.iter().filter_map(|s| s.parse().ok()).collect()
}

/// the `Cache` trait operations, shared by the five caches
fn cache_op<K: KeyKind, C: Cache<K, TV>>(c: &mut C, op: &str, a: &[u64]) -> Option<String> {
    Some(match (op, a) {
        ("put", [k, v]) => {
            let (key, val) = (K::mk(*k), TV::new(*v));
            let r = in_call(|| c.put(key, val));
            fmt_put(&r)
        }
        ("get", [k]) => fmt_optv(K::with_q(*k, |q| in_call(|| c.get(q)).map(|v| v.n))),
        ("getmut", [k, w]) => fmt_optv(K::with_q(*k, |q| {
            in_call(|| c.get_mut(q)).map(|v| {
                let old = v.n;
                if *w != 0 {
                    *v = TV::new(*w);
                }
                old
            })
        })),
        ("peek", [k]) => fmt_optv(K::with_q(*k, |q| in_call(|| c.peek(q)).map(|v| v.n))),
        ("peekmut", [k, w]) => fmt_optv(K::with_q(*k, |q| {
            in_call(|| c.peek_mut(q)).map(|v| {
                let old = v.n;
                if *w != 0 {
                    *v = TV::new(*w);
                }
                old
            })
        })),
        ("contains", [k]) => format!("{}", K::with_q(*k, |q| in_call(|| c.contains(q)))),
        ("remove", [k]) => fmt_optv(K::with_q(*k, |q| in_call(|| c.remove(q))).map(|v| v.n)),
        // remove the key only if it is resident (`contains`): a run of these over the key universe empties the resident
        // lists while every ghost entry stays
        ("removeres", [k]) => {
            if K::with_q(*k, |q| in_call(|| c.contains(q))) {
                fmt_optv(K::with_q(*k, |q| in_call(|| c.remove(q))).map(|v| v.n))
            } else {
                "skip".into()
            }
        }
        ("purge", []) => {
            in_call(|| c.purge());
            "()".into()
        }
        ("len", []) => format!("{}", in_call(|| c.len())),
        ("cap", []) => format!("{}", in_call(|| c.cap())),
        ("isempty", []) => format!("{}", in_call(|| c.is_empty())),
        _ => return None,
    })
}

fn census_of<K: KeyKind, C: Cache<K, TV>>(c: &C, u: u64) -> String {
    let inn: Vec<String> = (1..=u)
        .filter(|k| K::with_q(*k, |q| c.contains(q)))
        .map(|k| k.to_string())
        .collect();
    format!(
        "len={} cap={} empty={} in=[{}]",
        c.len(),
        c.cap(),
        c.is_empty(),
        inn.join(" ")
    )
}

fn list_of<K: KeyKind, E: OnEvictCallback, S: BuildHasher>(c: &RawLRU<K, TV, E, S>) -> String {
    let v: Vec<(u64, u64)> = c.iter().map(|(k, v)| (k.num(), v.n)).collect();
    fmt_list(&v)
}
fn raw_dump<K: KeyKind, E: OnEvictCallback, S: BuildHasher>(c: &RawLRU<K, TV, E, S>) -> String {
    format!("cap={} {}", c.cap(), list_of(c))
}

/// structural audit of one list through the hook (C03): both walks, index, key pointers
fn raw_audit<K: KeyKind, E, S>(name: &str, c: &RawLRU<K, TV, E, S>) -> Result<(), String> {
    let a = c.verif_audit(1 << 20);
    if a.truncated {
        return Err(format!("{}:walk-truncated", name));
    }
    let fwd: Vec<usize> = a.forward.iter().map(|t| t.0).collect();
    let mut bwd = a.backward.clone();
    bwd.reverse();
    if fwd != bwd {
        return Err(format!("{}:forward!=reverse(backward)", name));
    }
    if a.map_len != fwd.len() {
        return Err(format!("{}:map_len={}!=chain={}", name, a.map_len, fwd.len()));
    }
    let mut f2 = fwd.clone();
    f2.sort_unstable();
    let n0 = f2.len();
    f2.dedup();
    if f2.len() != n0 {
        return Err(format!("{}:node-twice-in-chain", name));
    }
    let mut idx: Vec<usize> = a.index.iter().map(|t| t.0).collect();
    idx.sort_unstable();
    if idx != f2 {
        return Err(format!("{}:index-nodes!=chain-nodes", name));
    }
    for (node, kref, keyaddr) in &a.index {
        if kref != keyaddr {
            return Err(format!("{}:keyref-not-own-node", name));
        }
        if *node == a.head || *node == a.tail {
            return Err(format!("{}:sentinel-in-index", name));
        }
    }
    if fwd.len() > a.cap {
        return Err(format!("{}:len>cap", name));
    }
    Ok(())
}

/// node addresses of one list (sentinels included)
fn nodes_of<K, E, S>(c: &RawLRU<K, TV, E, S>) -> Vec<usize> {
    let a = c.verif_audit(1 << 20);
    let mut v: Vec<usize> = a.forward.iter().map(|t| t.0).collect();
    v.push(a.head);
    v.push(a.tail);
    v
}

/// the lists of a composite cache never share a node (an entry migrates by being unlinked from one list first)
fn disjoint(lists: &[(&str, Vec<usize>)]) -> Result<(), String> {
    let mut all: Vec<(usize, &str)> = Vec::new();
    for (n, v) in lists {
        for a in v {
            all.push((*a, n));
        }
    }
    all.sort_unstable();
    for w in all.windows(2) {
        if w[0].0 == w[1].0 {
            return Err(format!("node-in-two-lists:{}+{}", w[0].1, w[1].1));
        }
    }
    Ok(())
}

fn audit_all(rs: &[Result<(), String>]) -> String {
    let errs: Vec<String> = rs.iter().filter_map(|r| r.clone().err()).collect();
    if errs.is_empty() {
        "ok".into()
    } else {
        errs.join(",")
    }
}

// ---------------------------------------------------------------------------------------------
// iterators
// ---------------------------------------------------------------------------------------------

fn sh(h: (usize, Option<usize>), len: usize) -> String {
    if h.1 == Some(h.0) && len == h.0 {
        format!("{}", h.0)
    } else {
        format!("{}?{:?}?{}", h.0, h.1, len)
    }
}

/// run a `f`/`b` script on an iterator; `show` formats (and possibly writes through) an item
fn run_iter<I, T>(mut it: I, script: &str, mut show: impl FnMut(T, usize) -> String) -> String
where
    I: DoubleEndedIterator<Item = T> + ExactSizeIterator,
{
    let mut parts = Vec::new();
    let script = if script == "-" { "" } else { script };
    for (i, ch) in script.chars().enumerate() {
        let y = if ch == 'f' { it.next() } else { it.next_back() };
        let hint = sh(it.size_hint(), it.len());
        parts.push(format!(
            "{}/{}",
            match y {
                None => "none".to_string(),
                Some(t) => show(t, i),
            },
            hint
        ));
    }
    let last = it.len();
    // the rest of the iterator is consumed through a different provided method each time (`count`, `fold`, `for_each`,
    // `rfold`, `sum` over `map`, `last`): an iterator that overrides one of them must still visit exactly `len()` items
    let cnt = match script.len() % 6 {
        0 => it.count(),
        1 => it.fold(0usize, |n, _| n + 1),
        2 => {
            let mut n = 0usize;
            it.for_each(|_| n += 1);
            n
        }
        3 => it.rfold(0usize, |n, _| n + 1),
        4 => it.map(|_| 1usize).sum(),
        _ => {
            // `last()` visits everything; what it returns must exist exactly when something was left
            let had = it.len();
            match it.last() {
                Some(_) if had > 0 => had,
                None if had == 0 => 0,
                _ => usize::MAX,
            }
        }
    };
    format!("[{}] count={}{}", parts.join(" "), cnt, if cnt == last { "" } else { "!" })
}

/// cloneable iterators: the clone and the original must behave identically and independently
fn run_iter_cl<I, T>(it: I, script: &str, show: impl Fn(T, usize) -> String + Copy) -> String
where
    I: DoubleEndedIterator<Item = T> + ExactSizeIterator + Clone,
{
    let cl = it.clone();
    let a = run_iter(cl, script, show);
    let b = run_iter(it, script, show);
    if a == b {
        a
    } else {
        format!("CLONE-DIVERGED {} vs {}", a, b)
    }
}

macro_rules! iter_dispatch {
    ($kind:expr, $script:expr, $wb:expr,
     $iter:expr, $iter_lru:expr, $iter_mut:expr, $iter_lru_mut:expr,
     $keys:expr, $keys_lru:expr, $values:expr, $values_lru:expr, $values_mut:expr, $values_lru_mut:expr) => {{
        let wb: u64 = $wb;
        let e = |(k, v): (&K, &TV), _i: usize| fmt_ent(k.num(), v.n);
        let em = |(k, v): (&K, &mut TV), i: usize| {
            let s = fmt_ent(k.num(), v.n);
            if wb != 0 {
                *v = TV::new(wb + i as u64);
            }
            s
        };
        let kf = |k: &K, _i: usize| format!("{}", k.num());
        let vf = |v: &TV, _i: usize| format!("{}", v.n);
        let vm = |v: &mut TV, i: usize| {
            let s = format!("{}", v.n);
            if wb != 0 {
                *v = TV::new(wb + i as u64);
            }
            s
        };
        match $kind {
            "mru" => Some(run_iter_cl($iter, $script, e)),
            "lru" => Some(run_iter_cl($iter_lru, $script, e)),
            "mrumut" => Some(run_iter($iter_mut, $script, em)),
            "lrumut" => Some(run_iter($iter_lru_mut, $script, em)),
            "keys" => Some(run_iter_cl($keys, $script, kf)),
            "keyslru" => Some(run_iter_cl($keys_lru, $script, kf)),
            "values" => Some(run_iter_cl($values, $script, vf)),
            "valueslru" => Some(run_iter_cl($values_lru, $script, vf)),
            "valuesmut" => Some(run_iter($values_mut, $script, vm)),
            "valueslrumut" => Some(run_iter($values_lru_mut, $script, vm)),
            _ => None,
        }
    }};
}

// ---------------------------------------------------------------------------------------------
// RawLRU
// ---------------------------------------------------------------------------------------------

struct RawComp<K: KeyKind, E: OnEvictCallback, S: BuildHasher> {
    c: RawLRU<K, TV, E, S>,
    cb: bool,
}

fn ent<K: KeyKind>(o: Option<(&K, &TV)>) -> String {
    fmt_opte(o.map(|(k, v)| (k.num(), v.n)))
}
fn ent_mut<K: KeyKind>(o: Option<(&K, &mut TV)>, w: u64) -> String {
    fmt_opte(o.map(|(k, v)| {
        let r = (k.num(), v.n);
        if w != 0 {
            *v = TV::new(w);
        }
        r
    }))
}

impl<K: KeyKind, E: OnEvictCallback + Clone, S: BuildHasher + Clone> Comp for RawComp<K, E, S> {
    fn op(&mut self, op: &str, sa: &[&str]) -> Option<String> {
        let a = nums(sa);
        if op == "innercaps" {
            return Some(format!("caps={}", self.c.cap()));
        }
        if let Some(r) = cache_op::<K, _>(&mut self.c, op, &a) {
            return Some(r);
        }
        let c = &mut self.c;
        Some(match (op, &a[..]) {
            ("debug", []) => {
                let _ = in_call(|| format!("{:?}", c));
                "()".into()
            }
            ("resize", [n]) => format!("{}", in_call(|| c.resize(*n as usize))),
            ("getlru", []) => ent(in_call(|| c.get_lru())),
            ("getmru", []) => ent(in_call(|| c.get_mru())),
            ("getlrumut", [w]) => ent_mut(in_call(|| c.get_lru_mut()), *w),
            ("getmrumut", [w]) => ent_mut(in_call(|| c.get_mru_mut()), *w),
            ("peeklru", []) => ent(in_call(|| c.peek_lru())),
            ("peekmru", []) => ent(in_call(|| c.peek_mru())),
            ("peeklrumut", [w]) => ent_mut(in_call(|| c.peek_lru_mut()), *w),
            ("peekmrumut", [w]) => ent_mut(in_call(|| c.peek_mru_mut()), *w),
            ("removelru", []) => fmt_opte(in_call(|| c.remove_lru()).map(|(k, v)| (k.num(), v.n))),
            ("peekorput", [k, v]) => {
                let (key, val) = (K::mk(*k), TV::new(*v));
                let (cur, r) = in_call(|| c.peek_or_put(key, val));
                format!("({}, {})", fmt_optv(cur.map(|v| v.n)), fmt_optput(&r))
            }
            ("peekmutorput", [k, v, w]) => {
                let (key, val) = (K::mk(*k), TV::new(*v));
                let (cur, r) = in_call(|| c.peek_mut_or_put(key, val));
                let cur = cur.map(|v| {
                    let old = v.n;
                    if *w != 0 {
                        *v = TV::new(*w);
                    }
                    old
                });
                format!("({}, {})", fmt_optv(cur), fmt_optput(&r))
            }
            ("containsorput", [k, v]) => {
                let (key, val) = (K::mk(*k), TV::new(*v));
                let (b, r) = in_call(|| c.contains_or_put(key, val));
                format!("({}, {})", b, fmt_optput(&r))
            }
            ("iter", _) => {
                let (kind, script, wb) = (sa[0], sa[1], sa[2].parse::<u64>().unwrap_or(0));
                match kind {
                    "into" => run_iter_cl((&*c).into_iter(), script, |(k, v): (&K, &TV), _| {
                        fmt_ent(k.num(), v.n)
                    }),
                    "intomut" => run_iter((&mut *c).into_iter(), script, |(k, v): (&K, &mut TV), i| {
                        let s = fmt_ent(k.num(), v.n);
                        if wb != 0 {
                            *v = TV::new(wb + i as u64);
                        }
                        s
                    }),
                    _ => iter_dispatch!(
                        kind,
                        script,
                        wb,
                        c.iter(),
                        c.iter_lru(),
                        c.iter_mut(),
                        c.iter_lru_mut(),
                        c.keys(),
                        c.keys_lru(),
                        c.values(),
                        c.values_lru(),
                        c.values_mut(),
                        c.values_lru_mut()
                    )?,
                }
            }
            _ => return None,
        })
    }
    fn dump(&self) -> String {
        raw_dump(&self.c)
    }
    fn audit(&self) -> String {
        audit_all(&[raw_audit("lru", &self.c)])
    }
    fn try_clone(&self) -> Option<Self> {
        Some(RawComp {
            c: in_call(|| self.c.clone()),
            cb: self.cb,
        })
    }
    fn clone_into(&self, dst: &mut Self) -> bool {
        in_call(|| dst.c.clone_from(&self.c));
        true
    }
    fn census(&self, u: u64) -> String {
        census_of::<K, _>(&self.c, u)
    }
    fn sizes(&self) -> Option<String> {
        Some(format!("{},{},{}", self.c.len(), self.c.cap(), self.c.is_empty()))
    }
    fn has_cb(&self) -> bool {
        true
    }
    fn tracked(&self) -> bool {
        K::TRACKED
    }
}

// ---------------------------------------------------------------------------------------------
// SegmentedCache
// ---------------------------------------------------------------------------------------------

struct SlruComp<K: KeyKind, S: BuildHasher> {
    c: SegmentedCache<K, TV, S, S>,
}

fn slru_dump<K: KeyKind, S: BuildHasher>(c: &SegmentedCache<K, TV, S, S>) -> String {
    let (p, q) = c.verif_segments();
    format!("P{{{}}} Q{{{}}}", raw_dump(p), raw_dump(q))
}

impl<K: KeyKind, S: BuildHasher + Clone> Comp for SlruComp<K, S> {
    fn op(&mut self, op: &str, sa: &[&str]) -> Option<String> {
        let a = nums(sa);
        if op == "innercaps" {
            // the capacities the lists really have (not what the accessors report)
            let (p, q) = self.c.verif_segments();
            return Some(format!("caps={},{}", p.cap(), q.cap()));
        }
        if let Some(r) = cache_op::<K, _>(&mut self.c, op, &a) {
            return Some(r);
        }
        let c = &mut self.c;
        Some(match (op, &a[..]) {
            ("putprotected", [k, v]) => {
                let (key, val) = (K::mk(*k), TV::new(*v));
                fmt_put(&in_call(|| c.put_protected(key, val)))
            }
            ("debug", []) => "()".into(),
            ("problen", []) => format!("{}", c.probationary_len()),
            ("protlen", []) => format!("{}", c.protected_len()),
            ("probcap", []) => format!("{}", c.probationary_cap()),
            ("protcap", []) => format!("{}", c.protected_cap()),
            ("peeklruprob", []) => ent(in_call(|| c.peek_lru_from_probationary())),
            ("peekmruprob", []) => ent(in_call(|| c.peek_mru_from_probationary())),
            ("peeklruprot", []) => ent(in_call(|| c.peek_lru_from_protected())),
            ("peekmruprot", []) => ent(in_call(|| c.peek_mru_from_protected())),
            ("peeklrumutprob", [w]) => ent_mut(in_call(|| c.peek_lru_mut_from_probationary()), *w),
            ("peekmrumutprob", [w]) => ent_mut(in_call(|| c.peek_mru_mut_from_probationary()), *w),
            ("peeklrumutprot", [w]) => ent_mut(in_call(|| c.peek_lru_mut_from_protected()), *w),
            ("peekmrumutprot", [w]) => ent_mut(in_call(|| c.peek_mru_mut_from_protected()), *w),
            ("removelruprob", []) => fmt_opte(
                in_call(|| c.remove_lru_from_probationary()).map(|(k, v)| (k.num(), v.n)),
            ),
            ("removelruprot", []) => {
                fmt_opte(in_call(|| c.remove_lru_from_protected()).map(|(k, v)| (k.num(), v.n)))
            }
            _ => return None,
        })
    }
    fn dump(&self) -> String {
        slru_dump(&self.c)
    }
    fn audit(&self) -> String {
        let (p, q) = self.c.verif_segments();
        audit_all(&[
            raw_audit("prob", p),
            raw_audit("prot", q),
            disjoint(&[("prob", nodes_of(p)), ("prot", nodes_of(q))]),
        ])
    }
    fn try_clone(&self) -> Option<Self> {
        Some(SlruComp {
            c: in_call(|| self.c.clone()),
        })
    }
    fn geo(&self) -> Option<String> {
        let (p, q) = self.c.verif_segments();
        Some(format!("pcap={},qcap={},p.cap={},q.cap={}", self.c.probationary_cap(), self.c.protected_cap(), p.cap(), q.cap()))
    }
    fn clone_into(&self, dst: &mut Self) -> bool {
        in_call(|| dst.c.clone_from(&self.c));
        true
    }
    fn census(&self, u: u64) -> String {
        census_of::<K, _>(&self.c, u)
    }
    fn sizes(&self) -> Option<String> {
        Some(format!("{},{},{}", self.c.len(), self.c.cap(), self.c.is_empty()))
    }
    fn tracked(&self) -> bool {
        K::TRACKED
    }
}

// ---------------------------------------------------------------------------------------------
// TwoQueueCache
// ---------------------------------------------------------------------------------------------

struct TwoQComp<K: KeyKind, S: BuildHasher> {
    c: TwoQueueCache<K, TV, S, S, S>,
}

impl<K: KeyKind, S: BuildHasher> Comp for TwoQComp<K, S> {
    fn op(&mut self, op: &str, sa: &[&str]) -> Option<String> {
        let a = nums(sa);
        if op == "innercaps" {
            let (r, f, g, _) = self.c.verif_lists();
            return Some(format!("caps={},{},{}", r.cap(), f.cap(), g.cap()));
        }
        if let Some(r) = cache_op::<K, _>(&mut self.c, op, &a) {
            return Some(r);
        }
        let c = &mut self.c;
        Some(match (op, &a[..]) {
            ("debug", []) => {
                let _ = in_call(|| format!("{:?}", c));
                "()".into()
            }
            ("recentlen", []) => format!("{}", c.recent_len()),
            ("frequentlen", []) => format!("{}", c.frequent_len()),
            ("ghostlen", []) => format!("{}", c.ghost_len()),
            ("iter", _) => {
                let (lst, kind, script, wb) = (sa[0], sa[1], sa[2], sa[3].parse::<u64>().unwrap_or(0));
                match lst {
                    "recent" => iter_dispatch!(
                        kind, script, wb,
                        c.recent_iter(), c.recent_iter_lru(), c.recent_iter_mut(), c.recent_iter_lru_mut(),
                        c.recent_keys(), c.recent_keys_lru(), c.recent_values(), c.recent_values_lru(),
                        c.recent_values_mut(), c.recent_values_lru_mut()
                    )?,
                    "frequent" => iter_dispatch!(
                        kind, script, wb,
                        c.frequent_iter(), c.frequent_iter_lru(), c.frequent_iter_mut(), c.frequent_iter_lru_mut(),
                        c.frequent_keys(), c.frequent_keys_lru(), c.frequent_values(), c.frequent_values_lru(),
                        c.frequent_values_mut(), c.frequent_values_lru_mut()
                    )?,
                    "ghost" => iter_dispatch!(
                        kind, script, wb,
                        c.ghost_iter(), c.ghost_iter_lru(), c.ghost_iter_mut(), c.ghost_iter_lru_mut(),
                        c.ghost_keys(), c.ghost_keys_lru(), c.ghost_values(), c.ghost_values_lru(),
                        c.ghost_values_mut(), c.ghost_values_lru_mut()
                    )?,
                    _ => return None,
                }
            }
            _ => return None,
        })
    }
    fn dump(&self) -> String {
        let (r, f, g, rs) = self.c.verif_lists();
        format!(
            "rs={} gcap={} R{} F{} G{}",
            rs,
            g.cap(),
            list_of(r),
            list_of(f),
            list_of(g)
        )
    }
    fn audit(&self) -> String {
        let (r, f, g, _) = self.c.verif_lists();
        audit_all(&[
            raw_audit("recent", r),
            raw_audit("frequent", f),
            raw_audit("ghost", g),
            disjoint(&[("recent", nodes_of(r)), ("frequent", nodes_of(f)), ("ghost", nodes_of(g))]),
        ])
    }
    fn census(&self, u: u64) -> String {
        census_of::<K, _>(&self.c, u)
    }
    fn sizes(&self) -> Option<String> {
        Some(format!("{},{},{}", self.c.len(), self.c.cap(), self.c.is_empty()))
    }
    fn tracked(&self) -> bool {
        K::TRACKED
    }
}

// ---------------------------------------------------------------------------------------------
// AdaptiveCache
// ---------------------------------------------------------------------------------------------

struct ArcComp<K: KeyKind, S: BuildHasher> {
    c: AdaptiveCache<K, TV, S, S, S, S>,
}

impl<K: KeyKind, S: BuildHasher> Comp for ArcComp<K, S> {
    fn op(&mut self, op: &str, sa: &[&str]) -> Option<String> {
        let a = nums(sa);
        if op == "innercaps" {
            let (t1, b1, t2, b2) = self.c.verif_lists();
            return Some(format!("caps={},{},{},{}", t1.cap(), t2.cap(), b1.cap(), b2.cap()));
        }
        if let Some(r) = cache_op::<K, _>(&mut self.c, op, &a) {
            return Some(r);
        }
        let c = &mut self.c;
        Some(match (op, &a[..]) {
            ("debug", []) => "()".into(),
            ("partition", []) => format!("{}", c.partition()),
            ("recentlen", []) => format!("{}", c.recent_len()),
            ("frequentlen", []) => format!("{}", c.frequent_len()),
            ("recentevictlen", []) => format!("{}", c.recent_evict_len()),
            ("frequentevictlen", []) => format!("{}", c.frequent_evict_len()),
            ("iter", _) => {
                let (lst, kind, script, wb) = (sa[0], sa[1], sa[2], sa[3].parse::<u64>().unwrap_or(0));
                match lst {
                    "recent" => iter_dispatch!(
                        kind, script, wb,
                        c.recent_iter(), c.recent_iter_lru(), c.recent_iter_mut(), c.recent_iter_lru_mut(),
                        c.recent_keys(), c.recent_keys_lru(), c.recent_values(), c.recent_values_lru(),
                        c.recent_values_mut(), c.recent_values_lru_mut()
                    )?,
                    "frequent" => iter_dispatch!(
                        kind, script, wb,
                        c.frequent_iter(), c.frequent_iter_lru(), c.frequent_iter_mut(), c.frequent_iter_lru_mut(),
                        c.frequent_keys(), c.frequent_keys_lru(), c.frequent_values(), c.frequent_values_lru(),
                        c.frequent_values_mut(), c.frequent_values_lru_mut()
                    )?,
                    "recentevict" => iter_dispatch!(
                        kind, script, wb,
                        c.recent_evict_iter(), c.recent_evict_iter_lru(), c.recent_evict_iter_mut(), c.recent_evict_iter_lru_mut(),
                        c.recent_evict_keys(), c.recent_evict_keys_lru(), c.recent_evict_values(), c.recent_evict_values_lru(),
                        c.recent_evict_values_mut(), c.recent_evict_values_lru_mut()
                    )?,
                    "frequentevict" => iter_dispatch!(
                        kind, script, wb,
                        c.frequent_evict_iter(), c.frequent_evict_iter_lru(), c.frequent_evict_iter_mut(), c.frequent_evict_iter_lru_mut(),
                        c.frequent_evict_keys(), c.frequent_evict_keys_lru(), c.frequent_evict_values(), c.frequent_evict_values_lru(),
                        c.frequent_evict_values_mut(), c.frequent_evict_values_lru_mut()
                    )?,
                    _ => return None,
                }
            }
            _ => return None,
        })
    }
    fn dump(&self) -> String {
        let (t1, b1, t2, b2) = self.c.verif_lists();
        format!(
            "p={} T1{} T2{} B1{} B2{}",
            self.c.partition(),
            list_of(t1),
            list_of(t2),
            list_of(b1),
            list_of(b2)
        )
    }
    fn audit(&self) -> String {
        let (t1, b1, t2, b2) = self.c.verif_lists();
        audit_all(&[
            raw_audit("t1", t1),
            raw_audit("b1", b1),
            raw_audit("t2", t2),
            raw_audit("b2", b2),
            disjoint(&[("t1", nodes_of(t1)), ("b1", nodes_of(b1)), ("t2", nodes_of(t2)), ("b2", nodes_of(b2))]),
        ])
    }
    fn census(&self, u: u64) -> String {
        census_of::<K, _>(&self.c, u)
    }
    fn sizes(&self) -> Option<String> {
        Some(format!("{},{},{}", self.c.len(), self.c.cap(), self.c.is_empty()))
    }
    fn tracked(&self) -> bool {
        K::TRACKED
    }
}

// ---------------------------------------------------------------------------------------------
// TinyLFU and W-TinyLFU
// ---------------------------------------------------------------------------------------------

fn tiny_dump<K, KH>(t: &TinyLFU<K, KH>) -> String {
    let d = t.verif_dump();
    let rows: Vec<String> = d.rows.iter().map(|r| hex_bytes(r)).collect();
    format!("w={} rows={} door={}", d.w, rows.join("/"), hex_words(&d.bloom_bits))
}
fn tiny_env<K, KH>(t: &TinyLFU<K, KH>) -> String {
    let d = t.verif_dump();
    let scheme = if d.seeds.is_empty() {
        "scheme=core".to_string()
    } else {
        let s: Vec<String> = d.seeds.iter().map(|x| format!("{:x}", x)).collect();
        format!("scheme=std seeds={}", s.join(","))
    };
    format!(
        "env {} mask={:x} bwords={} bmask={} blocs={} bshift={} samples={}",
        scheme,
        d.mask,
        d.bloom_bits.len(),
        d.bloom_mask,
        d.bloom_locs,
        d.bloom_shift,
        d.samples
    )
}

struct TinyComp {
    t: TinyLFU<u64>,
}
fn hexs(a: &[&str]) -> Option<Vec<u64>> {
    a.iter().map(|s| u64::from_str_radix(s, 16).ok()).collect()
}
impl Comp for TinyComp {
    fn op(&mut self, op: &str, sa: &[&str]) -> Option<String> {
        let t = &mut self.t;
        // keyed API: keys are hashed by the estimator's own (randomly seeded) key hasher; the hashes of
        // the keys 0..=24 are published as `kh` lines so that the model can follow
        match (op, sa.len()) {
            ("cmp", 3) => {
                let (x, y): (u64, u64) = (sa[1].parse().ok()?, sa[2].parse().ok()?);
                let b = match sa[0] {
                    "eq" => t.eq(&x, &y),
                    "le" => t.le(&x, &y),
                    "lt" => t.lt(&x, &y),
                    "gt" => t.gt(&x, &y),
                    "ge" => t.ge(&x, &y),
                    _ => return None,
                };
                return Some(format!("{} {} {}", b, t.estimate(&x), t.estimate(&y)));
            }
            ("inck", 1) => {
                let k: u64 = sa[0].parse().ok()?;
                t.increment(&k);
                return Some("()".into());
            }
            ("incks", _) => {
                let ks: Vec<u64> = sa.iter().filter_map(|s| s.parse().ok()).collect();
                let refs: Vec<&u64> = ks.iter().collect();
                t.increment_keys(&refs);
                return Some("()".into());
            }
            ("estk", 1) => {
                let k: u64 = sa[0].parse().ok()?;
                return Some(format!("{}", t.estimate(&k)));
            }
            ("hask", 1) => {
                let k: u64 = sa[0].parse().ok()?;
                return Some(format!("{}", t.contains(&k)));
            }
            _ => {}
        }
        let h = hexs(sa)?;
        Some(match (op, &h[..]) {
            ("inc", [x]) => {
                t.increment_hashed_key(*x);
                "()".into()
            }
            ("incs", l) => {
                t.increment_hashed_keys(l);
                "()".into()
            }
            ("est", [x]) => format!("{}", t.estimate_hashed_key(*x)),
            ("has", [x]) => format!("{}", t.contains_hash(*x)),
            ("tryreset", []) => {
                t.try_reset();
                "()".into()
            }
            ("clear", []) => {
                t.clear();
                "()".into()
            }
            _ => return None,
        })
    }
    fn dump(&self) -> String {
        tiny_dump(&self.t)
    }
    fn try_clone(&self) -> Option<Self> {
        Some(TinyComp { t: self.t.clone() })
    }
    fn fresh_other(&mut self) -> Option<Self> {
        let d = self.t.verif_dump();
        TinyLFU::<u64>::new(97, (d.samples as usize).saturating_mul(5).saturating_add(3).min(1 << 20), 0.02)
            .ok()
            .map(|t| TinyComp { t })
    }
    fn geo(&self) -> Option<String> {
        // the key hasher is configuration too: a clone must hash every key as the original does
        let kh: Vec<String> = (0u64..=8).map(|k| format!("{:x}", self.t.hash_key(&k))).collect();
        Some(format!("{},kh={}", tiny_env(&self.t).replace(' ', ","), kh.join(".")))
    }
    fn clone_into(&self, dst: &mut Self) -> bool {
        dst.t.clone_from(&self.t);
        true
    }
    fn env(&self) -> Vec<String> {
        let mut v = vec![tiny_env(&self.t)];
        for k in 0u64..=24 {
            v.push(format!("kh {} {:x}", k, self.t.hash_key(&k)));
        }
        v
    }
}

/// key hasher driven by the `kh` table of the script
#[derive(Clone)]
struct TableKH {
    table: Rc<HashMap<u64, u64>>,
}
impl<K: Hash + Eq> KeyHasher<K> for TableKH {
    fn hash_key<Q>(&self, key: &Q) -> u64
    where
        K: Borrow<Q>,
        Q: Hash + Eq + ?Sized,
    {
        *self.table.get(&key_number(key)).unwrap_or(&0)
    }
}

struct WtComp<K: KeyKind, S: BuildHasher> {
    c: WTinyLFUCache<K, TV, TableKH, S, S, S>,
    /// an empty cache with other part sizes and another sample window, handed out once as a `clone_from` destination
    other: Option<WTinyLFUCache<K, TV, TableKH, S, S, S>>,
}
impl<K: KeyKind, S: BuildHasher + Clone> Comp for WtComp<K, S> {
    fn op(&mut self, op: &str, sa: &[&str]) -> Option<String> {
        let a = nums(sa);
        if op == "innercaps" {
            let (w, m, _) = self.c.verif_parts();
            let (p, q) = m.verif_segments();
            return Some(format!("caps={},{},{}", w.cap(), p.cap(), q.cap()));
        }
        if let Some(r) = cache_op::<K, _>(&mut self.c, op, &a) {
            return Some(r);
        }
        let c = &mut self.c;
        Some(match (op, &a[..]) {
            ("debug", []) => "()".into(),
            ("windowlen", []) => format!("{}", c.window_cache_len()),
            ("windowcap", []) => format!("{}", c.window_cache_cap()),
            ("mainlen", []) => format!("{}", c.main_cache_len()),
            ("maincap", []) => format!("{}", c.main_cache_cap()),
            _ => return None,
        })
    }
    fn dump(&self) -> String {
        let (w, m, t) = self.c.verif_parts();
        format!("W{{{}}} {} E{{{}}}", raw_dump(w), slru_dump(m), tiny_dump(t))
    }
    fn audit(&self) -> String {
        let (w, m, _) = self.c.verif_parts();
        let (p, q) = m.verif_segments();
        audit_all(&[
            raw_audit("window", w),
            raw_audit("prob", p),
            raw_audit("prot", q),
            disjoint(&[("window", nodes_of(w)), ("prob", nodes_of(p)), ("prot", nodes_of(q))]),
        ])
    }
    fn try_clone(&self) -> Option<Self> {
        Some(WtComp {
            c: in_call(|| self.c.clone()),
            other: None,
        })
    }
    fn fresh_other(&mut self) -> Option<Self> {
        self.other.take().map(|c| WtComp { c, other: None })
    }
    fn geo(&self) -> Option<String> {
        let (w, m, t) = self.c.verif_parts();
        let (p, q) = m.verif_segments();
        Some(format!(
            "wcap={},pcap={},qcap={},p.cap={},q.cap={},{}",
            w.cap(),
            m.probationary_cap(),
            m.protected_cap(),
            p.cap(),
            q.cap(),
            tiny_env(t).replace(' ', ",")
        ))
    }
    fn clone_into(&self, dst: &mut Self) -> bool {
        in_call(|| dst.c.clone_from(&self.c));
        true
    }
    fn census(&self, u: u64) -> String {
        census_of::<K, _>(&self.c, u)
    }
    fn sizes(&self) -> Option<String> {
        Some(format!("{},{},{}", self.c.len(), self.c.cap(), self.c.is_empty()))
    }
    fn tracked(&self) -> bool {
        K::TRACKED
    }
    fn env(&self) -> Vec<String> {
        vec![tiny_env(self.c.verif_parts().2)]
    }
}

// ---------------------------------------------------------------------------------------------
// SampledLFU
// ---------------------------------------------------------------------------------------------

struct SamComp {
    s: SampledLFU<u64>,
}
impl Comp for SamComp {
    fn op(&mut self, op: &str, sa: &[&str]) -> Option<String> {
        let s = &mut self.s;
        let int = |i: usize| -> Option<i64> { sa.get(i)?.parse().ok() };
        Some(match (op, sa.len()) {
            ("sinc", 2) => {
                s.increment_hashed_key(sa[0].parse().ok()?, int(1)?);
                "()".into()
            }
            ("supd", 2) => format!("{}", s.update_hashed_key(sa[0].parse().ok()?, int(1)?)),
            ("srem", 1) => match s.remove_hashed_key(sa[0].parse().ok()?) {
                None => "none".into(),
                Some(c) => format!("some {}", c),
            },
            ("sclear", 0) => {
                s.clear();
                "()".into()
            }
            ("smax", 1) => {
                s.update_max_cost(int(0)?);
                "()".into()
            }
            ("room", 1) => format!("{}", s.room_left(int(0)?)),
            ("getmax", 0) => format!("{}", s.get_max_cost()),
            ("fill", _) => {
                let pairs: Vec<(u64, i64)> = sa
                    .iter()
                    .filter_map(|p| {
                        let (k, c) = p.split_once(':')?;
                        Some((k.parse().ok()?, c.parse().ok()?))
                    })
                    .collect();
                let r = s.fill_sample(pairs);
                let parts: Vec<String> = r.iter().map(|(k, c)| format!("{}:{}", k, c)).collect();
                format!("[{}]", parts.join(" "))
            }
            _ => return None,
        })
    }
    fn dump(&self) -> String {
        let (used, mut costs, _) = self.s.verif_dump();
        costs.sort();
        let parts: Vec<String> = costs.iter().map(|(k, c)| format!("{}:{}", k, c)).collect();
        format!(
            "used={} max={} costs=[{}]",
            used,
            self.s.get_max_cost(),
            parts.join(" ")
        )
    }
}



// ---------------------------------------------------------------------------------------------
// RawLRU with a ZERO-SIZED value type (`vals=zst`): code specialised on `size_of::<V>()` / on the value layout shows only
// here. The script writes value 0 everywhere, so the ordinary rawlru model applies unchanged.
// ---------------------------------------------------------------------------------------------

struct RawZstComp {
    c: RawLRU<u64, ()>,
}
fn zpr(r: &caches::PutResult<u64, ()>) -> String {
    match r {
        caches::PutResult::Put => "Put".into(),
        caches::PutResult::Update(_) => "Update(0)".into(),
        caches::PutResult::Evicted { key, .. } => format!("Evicted({}:0)", key),
        caches::PutResult::EvictedAndUpdate { evicted, .. } => format!("EvictedAndUpdate({}:0,0)", evicted.0),
    }
}
impl Comp for RawZstComp {
    fn op(&mut self, op: &str, sa: &[&str]) -> Option<String> {
        let a = nums(sa);
        let c = &mut self.c;
        let optv = |o: Option<()>| fmt_optv(o.map(|_| 0));
        let opte = |o: Option<(u64, ())>| fmt_opte(o.map(|(k, _)| (k, 0)));
        Some(match (op, &a[..]) {
            ("put", [k, _]) => zpr(&c.put(*k, ())),
            ("get", [k]) => optv(c.get(k).copied()),
            ("getmut", [k, _]) => optv(c.get_mut(k).map(|_| ())),
            ("peek", [k]) => optv(c.peek(k).copied()),
            ("peekmut", [k, _]) => optv(c.peek_mut(k).map(|_| ())),
            ("contains", [k]) => format!("{}", c.contains(k)),
            ("remove", [k]) => optv(c.remove(k)),
            ("removeres", [k]) => {
                if c.contains(k) {
                    optv(c.remove(k))
                } else {
                    "skip".into()
                }
            }
            ("purge", []) => {
                c.purge();
                "()".into()
            }
            ("len", []) => format!("{}", c.len()),
            ("cap", []) => format!("{}", c.cap()),
            ("isempty", []) => format!("{}", c.is_empty()),
            ("resize", [n]) => format!("{}", c.resize(*n as usize)),
            ("getlru", []) => opte(c.get_lru().map(|(k, _)| (*k, ()))),
            ("getmru", []) => opte(c.get_mru().map(|(k, _)| (*k, ()))),
            ("peeklru", []) => opte(c.peek_lru().map(|(k, _)| (*k, ()))),
            ("peekmru", []) => opte(c.peek_mru().map(|(k, _)| (*k, ()))),
            ("removelru", []) => opte(c.remove_lru()),
            ("peekorput", [k, _]) => {
                let (cur, r) = c.peek_or_put(*k, ());
                format!("({}, {})", fmt_optv(cur.map(|_| 0)), r.as_ref().map(zpr).unwrap_or_else(|| "none".into()))
            }
            ("containsorput", [k, _]) => {
                let (b, r) = c.contains_or_put(*k, ());
                format!("({}, {})", b, r.as_ref().map(zpr).unwrap_or_else(|| "none".into()))
            }
            _ => return None,
        })
    }
    fn dump(&self) -> String {
        let items: Vec<(u64, u64)> = self.c.iter().map(|(k, _)| (*k, 0)).collect();
        format!("cap={} {}", self.c.cap(), fmt_list(&items))
    }
    fn try_clone(&self) -> Option<Self> {
        Some(RawZstComp { c: self.c.clone() })
    }
    fn clone_into(&self, dst: &mut Self) -> bool {
        dst.c.clone_from(&self.c);
        true
    }
    fn sizes(&self) -> Option<String> {
        Some(format!("{},{},{}", self.c.len(), self.c.cap(), self.c.is_empty()))
    }
}

// ---------------------------------------------------------------------------------------------
// PutResult itself: the hand-written `PartialEq` and `Clone`
// ---------------------------------------------------------------------------------------------

struct PrComp;
/// payload whose `==` is not reflexive for the value 9 (like `f64::NAN`): `PutResult`'s equality must be decided by the
/// payloads, never by the identity of the operands
#[derive(Clone, Copy, Debug)]
struct NR(u64);
impl PartialEq for NR {
    fn eq(&self, o: &Self) -> bool {
        self.0 == o.0 && self.0 != 9
    }
}
fn parse_pr(t: &str) -> Option<caches::PutResult<NR, NR>> {
    let p: Vec<&str> = t.split(':').collect();
    let n = |i: usize| -> Option<NR> { p.get(i)?.parse().ok().map(NR) };
    Some(match (p[0], p.len()) {
        ("P", 1) => caches::PutResult::Put,
        ("U", 2) => caches::PutResult::Update(n(1)?),
        ("E", 3) => caches::PutResult::Evicted { key: n(1)?, value: n(2)? },
        ("X", 4) => caches::PutResult::EvictedAndUpdate { evicted: (n(1)?, n(2)?), update: n(3)? },
        _ => return None,
    })
}
fn fmt_pr(r: &caches::PutResult<NR, NR>) -> String {
    match r {
        caches::PutResult::Put => "Put".into(),
        caches::PutResult::Update(o) => format!("Update({})", o.0),
        caches::PutResult::Evicted { key, value } => format!("Evicted({}:{})", key.0, value.0),
        caches::PutResult::EvictedAndUpdate { evicted, update } => {
            format!("EvictedAndUpdate({}:{},{})", evicted.0 .0, evicted.1 .0, update.0)
        }
    }
}
impl Comp for PrComp {
    fn op(&mut self, op: &str, sa: &[&str]) -> Option<String> {
        Some(match (op, sa.len()) {
            ("preq", 2) => {
                let (a, b) = (parse_pr(sa[0])?, parse_pr(sa[1])?);
                // `==` and `!=` must be each other's negation, and the derived `Copy` must agree with `Clone`
                let (e, ne) = (a == b, a != b);
                if e == ne {
                    return Some("INCONSISTENT eq/ne".into());
                }
                format!("{}", e)
            }
            ("preqself", 1) => {
                let a = parse_pr(sa[0])?;
                #[allow(clippy::eq_op)]
                let (e, ne) = (a == a, a != a);
                if e == ne {
                    return Some("INCONSISTENT eq/ne".into());
                }
                format!("{}", e)
            }
            ("prclone", 1) => {
                let a = parse_pr(sa[0])?;
                #[allow(clippy::clone_on_copy)]
                let c = a.clone();
                let d = a; // Copy
                if fmt_pr(&c) != fmt_pr(&d) {
                    return Some("INCONSISTENT clone/copy".into());
                }
                fmt_pr(&c)
            }
            _ => return None,
        })
    }
    fn dump(&self) -> String {
        "-".into()
    }
}

// ---------------------------------------------------------------------------------------------
// W-TinyLFU built through the constructors that fix the key hasher (`new`, `with_sizes`, `builder()`): only the
// configuration is observable here (the default key hasher is not known to the model)
// ---------------------------------------------------------------------------------------------

struct WtSizesComp {
    c: WTinyLFUCache<u64, u64>,
}
impl Comp for WtSizesComp {
    fn op(&mut self, op: &str, sa: &[&str]) -> Option<String> {
        Some(match (op, sa.len()) {
            ("len", 0) => format!("{}", self.c.len()),
            ("cap", 0) => format!("{}", self.c.cap()),
            ("isempty", 0) => format!("{}", self.c.is_empty()),
            ("wcap", 0) => format!("{}", self.c.window_cache_cap()),
            ("mcap", 0) => format!("{}", self.c.main_cache_cap()),
            ("wlen", 0) => format!("{}", self.c.window_cache_len()),
            ("mlen", 0) => format!("{}", self.c.main_cache_len()),
            _ => return None,
        })
    }
    fn dump(&self) -> String {
        let (w, m, _) = self.c.verif_parts();
        let (p, q) = m.verif_segments();
        format!("W{{cap={}}} P{{cap={}}} Q{{cap={}}}", w.cap(), p.cap(), q.cap())
    }
}

// ---------------------------------------------------------------------------------------------
// driving one case
// ---------------------------------------------------------------------------------------------

fn drive<C: Comp>(
    ctor: impl FnOnce() -> Result<C, String>,
    case: &Case,
    out: &mut impl Write,
) {
    reset_tracking();
    let pad = case.num("pad");
    PAD.store(pad, std::sync::atomic::Ordering::Relaxed);
    let (b0, _) = live();
    let mut have_end = false;
    {
        let built = catch_unwind(AssertUnwindSafe(|| in_call(ctor)));
        match built {
            Err(_) => {
                writeln!(out, "{} => PANIC", case.head).unwrap();
            }
            Ok(Err(e)) => {
                writeln!(out, "{} => err {}", case.head, e).unwrap();
            }
            Ok(Ok(main)) => {
                match HEAD_OVERRIDE.with(|h| h.borrow_mut().take()) {
                    // (dropped right here: the override was allocated inside the tracked region)
                    Some(head) => writeln!(out, "{} => ok", head).unwrap(),
                    None => writeln!(out, "{} => ok", case.head).unwrap(),
                }
                for e in main.env() {
                    writeln!(out, "{}", e).unwrap();
                }
                for (k, h) in &case.kh {
                    writeln!(out, "kh {} {:x}", k, h).unwrap();
                }
                let _ = take_drops();
                let _ = take_cbs();
                let mut main = Some(main);
                let mut alt: Option<C> = None;
                let mut dead = false;
                for line in &case.ops {
                    let toks: Vec<&str> = line.split_whitespace().collect();
                    let (op, args) = (toks[0], &toks[1..]);
                    let m = main.as_mut().unwrap();
                    match op {
                        "clone" => {
                            let r = catch_unwind(AssertUnwindSafe(|| m.try_clone()));
                            match r {
                                Err(_) => {
                                    writeln!(out, "{} => PANIC", line).unwrap();
                                    dead = true;
                                }
                                Ok(None) => writeln!(out, "{} => BAD not cloneable", line).unwrap(),
                                Ok(Some(c)) => {
                                    let _ = take_drops();
                                    // `geo=`: configuration the state dump does not show (sketch seeds and masks, doorkeeper
                                    // geometry) — a clone must carry the original's (oracle of C16; not compared with the model)
                                    let geo = match (c.geo(), m.geo()) {
                                        (Some(g), Some(g0)) => format!(" | geo={} | geoo={}", g, g0),
                                        _ => String::new(),
                                    };
                                    match c.sizes() {
                                        Some(sz) => writeln!(out, "{} => {} | sz={}{}", line, c.dump(), sz, geo).unwrap(),
                                        None => writeln!(out, "{} => {}{}", line, c.dump(), geo).unwrap(),
                                    }
                                    if let Some(old) = alt.take() {
                                        drop(old);
                                    }
                                    alt = Some(c);
                                }
                            }
                        }
                        "clonefrom" => {
                            // `alt.clone_from(&main)` (the in-place form); without an alt it is a plain clone
                            let r = catch_unwind(AssertUnwindSafe(|| match alt.as_mut() {
                                Some(a) => {
                                    if m.clone_into(a) {
                                        Some(None)
                                    } else {
                                        None
                                    }
                                }
                                None => match m.fresh_other() {
                                    // no alt yet: where the component can build a differently configured object, that one is
                                    // the destination of `clone_from`
                                    Some(mut a) => {
                                        if m.clone_into(&mut a) {
                                            Some(Some(a))
                                        } else {
                                            None
                                        }
                                    }
                                    None => m.try_clone().map(Some),
                                },
                            }));
                            match r {
                                Err(_) => {
                                    writeln!(out, "{} => PANIC", line).unwrap();
                                    dead = true;
                                }
                                Ok(None) => writeln!(out, "{} => BAD not cloneable", line).unwrap(),
                                Ok(Some(newalt)) => {
                                    let _ = take_drops();
                                    if let Some(c) = newalt {
                                        alt = Some(c);
                                    }
                                    let c = alt.as_ref().unwrap();
                                    let geo = match (c.geo(), main.as_ref().unwrap().geo()) {
                                        (Some(g), Some(g0)) => format!(" | geo={} | geoo={}", g, g0),
                                        _ => String::new(),
                                    };
                                    match c.sizes() {
                                        Some(sz) => writeln!(out, "{} => {} | sz={}{}", line, c.dump(), sz, geo).unwrap(),
                                        None => writeln!(out, "{} => {}{}", line, c.dump(), geo).unwrap(),
                                    }
                                }
                            }
                        }
                        "swap" => match alt.take() {
                            None => writeln!(out, "{} => BAD no alt", line).unwrap(),
                            Some(a) => {
                                alt = main.take();
                                main = Some(a);
                                let mm = main.as_ref().unwrap();
                                match mm.sizes() {
                                    Some(sz) => writeln!(out, "{} => {} | sz={}", line, mm.dump(), sz).unwrap(),
                                    None => writeln!(out, "{} => {}", line, mm.dump()).unwrap(),
                                }
                            }
                        },
                        "dropalt" => match alt.take() {
                            None => writeln!(out, "{} => BAD no alt", line).unwrap(),
                            Some(a) => {
                                let tr = a.tracked();
                                in_call(|| drop(a));
                                let d = take_drops();
                                if tr {
                                    writeln!(out, "{} => dr={}", line, d).unwrap();
                                } else {
                                    writeln!(out, "{} => ", line).unwrap();
                                }
                            }
                        },
                        "census" => {
                            let u = args.first().and_then(|s| s.parse().ok()).unwrap_or(0);
                            writeln!(out, "{} => {}", line, m.census(u)).unwrap();
                        }
                        _ => {
                            let r = catch_unwind(AssertUnwindSafe(|| m.op(op, args)));
                            match r {
                                Err(_) => {
                                    writeln!(out, "{} => PANIC", line).unwrap();
                                    dead = true;
                                }
                                Ok(None) => writeln!(out, "{} => BAD unknown op", line).unwrap(),
                                Ok(Some(res)) => {
                                    let mut s = format!("{} => {} | {}", line, res, m.dump());
                                    let cbs = take_cbs();
                                    let drs = take_drops();
                                    if m.has_cb() {
                                        s.push_str(&format!(" | cb={}", cbs));
                                    }
                                    if m.tracked() {
                                        s.push_str(&format!(" | dr={}", drs));
                                    }
                                    if let Some(sz) = m.sizes() {
                                        s.push_str(&format!(" | sz={}", sz));
                                    }
                                    s.push_str(&format!(" | au={}", m.audit()));
                                    writeln!(out, "{}", s).unwrap();
                                }
                            }
                        }
                    }
                    if dead {
                        break;
                    }
                }
                if dead {
                    // state after a panic is unspecified (C18 covers it separately): leak everything
                    std::mem::forget(main);
                    std::mem::forget(alt);
                } else {
                    let tr = main.as_ref().map(|m| m.tracked()).unwrap_or(false);
                    let m = main.take();
                    let a = alt.take();
                    in_call(|| {
                        drop(m);
                        drop(a);
                    });
                    let (b1, _) = live();
                    let d = take_drops();
                    let mut s = String::from("end => ");
                    if tr {
                        s.push_str(&format!("dr={} | ", d));
                    }
                    s.push_str(&format!(
                        "heap={} | live={} | dd={}",
                        b1 - b0,
                        alive_count(),
                        double_count()
                    ));
                    writeln!(out, "{}", s).unwrap();
                    have_end = true;
                }
            }
        }
    }
    if !have_end {
        writeln!(out, "end").unwrap();
    }
    PAD.store(0, std::sync::atomic::Ordering::Relaxed);
}

fn hasher_of(case: &Case) -> VH {
    VH::parse(case.get("hasher").unwrap_or("random"))
}

fn run_keyed<K: KeyKind>(case: &Case, out: &mut impl Write) {
    let default_hasher = case.get("hasher").unwrap_or("default") == "default";
    match case.comp.as_str() {
        "rawlru" if case.get("vals") == Some("zst") => {
            let cap = case.num("cap") as usize;
            drive(
                || RawLRU::<u64, ()>::new(cap).map(|c| RawZstComp { c }).map_err(|e| errname(&format!("{:?}", e))),
                case,
                out,
            )
        }
        "rawlru" => {
            let cap = case.num("cap") as usize;
            let cb = case.num("cb") == 1;
            match (default_hasher, cb) {
                (true, false) => drive(
                    || {
                        RawLRU::<K, TV>::new(cap)
                            .map(|c| RawComp { c, cb })
                            .map_err(|e| errname(&format!("{:?}", e)))
                    },
                    case,
                    out,
                ),
                (true, true) => drive(
                    || {
                        RawLRU::<K, TV, LogCb>::with_on_evict_cb(cap, LogCb)
                            .map(|c| RawComp { c, cb })
                            .map_err(|e| errname(&format!("{:?}", e)))
                    },
                    case,
                    out,
                ),
                (false, false) => drive(
                    || {
                        RawLRU::<K, TV, DefaultEvictCallback, VH>::with_hasher(cap, hasher_of(case))
                            .map(|c| RawComp { c, cb })
                            .map_err(|e| errname(&format!("{:?}", e)))
                    },
                    case,
                    out,
                ),
                (false, true) => drive(
                    || {
                        RawLRU::<K, TV, LogCb, VH>::with_on_evict_cb_and_hasher(cap, LogCb, hasher_of(case))
                            .map(|c| RawComp { c, cb })
                            .map_err(|e| errname(&format!("{:?}", e)))
                    },
                    case,
                    out,
                ),
            }
        }
        "rawfrom" => {
            // `RawLRU::from(vec)` (hint = len) or `collect()` through a filter (hint = 0)
            let hint = case.num("hint");
            let items: Vec<(u64, u64)> = match case.get("items") {
                Some("-") | None => Vec::new(),
                Some(s) => s
                    .split(',')
                    .filter_map(|t| {
                        let (k, v) = t.split_once(':')?;
                        Some((k.parse().ok()?, v.parse().ok()?))
                    })
                    .collect(),
            };
            // `src=`: which collection the cache is built from (every `From` impl of the crate). A set of pairs may hold one
            // key twice with different values; hash-ordered collections are iterated once on a clone to learn the order, and
            // the header echoed to the model carries the items in that effective order
            let src = case.get("src").unwrap_or("vec").to_string();
            if src != "vec" {
                let cid = case.id().to_string();
                return drive(
                    || {
                        #[allow(unused_imports)]
                        use std::collections::{BTreeMap, BTreeSet, BinaryHeap, HashMap, HashSet, LinkedList, VecDeque};
                        let pairs = || items.iter().map(|(k, v)| (*k, TV::new(*v)));
                        let order_of = |it: Vec<(u64, u64)>| -> String {
                            if it.is_empty() {
                                "-".into()
                            } else {
                                it.iter().map(|(k, v)| format!("{}:{}", k, v)).collect::<Vec<_>>().join(",")
                            }
                        };
                        let (order, c): (String, RawLRU<u64, TV>) = match src.as_str() {
                            "deque" => {
                                let col: VecDeque<(u64, TV)> = pairs().collect();
                                (order_of(col.iter().map(|(k, v)| (*k, v.n)).collect()), RawLRU::from(col))
                            }
                            "list" => {
                                let col: LinkedList<(u64, TV)> = pairs().collect();
                                (order_of(col.iter().map(|(k, v)| (*k, v.n)).collect()), RawLRU::from(col))
                            }
                            "heap" => {
                                let col: BinaryHeap<(u64, TV)> = pairs().collect();
                                (order_of(col.clone().into_iter().map(|(k, v)| (k, v.n)).collect()), RawLRU::from(col))
                            }
                            #[cfg(not(feature = "nostd"))]
                            "hashset" => {
                                let col: HashSet<(u64, TV)> = pairs().collect();
                                (order_of(col.iter().map(|(k, v)| (*k, v.n)).collect()), RawLRU::from(col))
                            }
                            // the slice / array impls clone the pairs (`to_vec()` / `iter().cloned()`): the originals are dropped here
                            "slice" => {
                                let col: Vec<(u64, TV)> = pairs().collect();
                                (order_of(col.iter().map(|(k, v)| (*k, v.n)).collect()), RawLRU::from(&col[..]))
                            }
                            "mutslice" => {
                                let mut col: Vec<(u64, TV)> = pairs().collect();
                                (order_of(col.iter().map(|(k, v)| (*k, v.n)).collect()), RawLRU::from(&mut col[..]))
                            }
                            "array" if items.len() <= 3 => {
                                let col: Vec<(u64, TV)> = pairs().collect();
                                let order = order_of(col.iter().map(|(k, v)| (*k, v.n)).collect());
                                let c = match col.len() {
                                    0 => RawLRU::from(<[(u64, TV); 0]>::try_from(col).unwrap()),
                                    1 => RawLRU::from(<[(u64, TV); 1]>::try_from(col).unwrap()),
                                    2 => RawLRU::from(<[(u64, TV); 2]>::try_from(col).unwrap()),
                                    _ => RawLRU::from(<[(u64, TV); 3]>::try_from(col).unwrap()),
                                };
                                (order, c)
                            }
                            "btreeset" => {
                                let col: BTreeSet<(u64, TV)> = pairs().collect();
                                (order_of(col.iter().map(|(k, v)| (*k, v.n)).collect()), RawLRU::from(col))
                            }
                            #[cfg(not(feature = "nostd"))]
                            "hashmap" => {
                                let col: HashMap<u64, TV> = pairs().collect();
                                (order_of(col.iter().map(|(k, v)| (*k, v.n)).collect()), RawLRU::from(col))
                            }
                            _ => {
                                let col: BTreeMap<u64, TV> = pairs().collect();
                                (order_of(col.iter().map(|(k, v)| (*k, v.n)).collect()), RawLRU::from(col))
                            }
                        };
                        // a collection always reports its exact length: the sized path of `from_iter`
                        let n = if order == "-" { 0 } else { order.split(',').count() };
                        HEAD_OVERRIDE.with(|h| {
                            *h.borrow_mut() = Some(format!("case {} rawfrom hint={} items={} keys=u64 src={}", cid, n, order, src))
                        });
                        Ok(RawComp::<u64, caches::DefaultEvictCallback, caches::DefaultHashBuilder> { c, cb: false })
                    },
                    case,
                    out,
                );
            }
            drive(
                || {
                    let v: Vec<(K, TV)> = items.iter().map(|(k, v)| (K::mk(*k), TV::new(*v))).collect();
                    let c: RawLRU<K, TV> = if hint == 0 && !v.is_empty() {
                        v.into_iter().filter(|_| true).collect()
                    } else {
                        RawLRU::from(v)
                    };
                    Ok(RawComp { c, cb: false })
                },
                case,
                out,
            )
        }
        "slru" => {
            let (p, q) = (case.num("pcap") as usize, case.num("qcap") as usize);
            if default_hasher {
                // every public way of building the same configuration (`via=` is invisible to the model)
                let via = case.get("via").unwrap_or("new").to_string();
                drive(
                    || {
                        let r = match via.as_str() {
                            "builder" => SegmentedCacheBuilder::new(p, q).finalize::<K, TV>(),
                            "statbuilder" => SegmentedCache::<K, TV>::builder(p, q).finalize::<K, TV>(),
                            "setters" => SegmentedCacheBuilder::default()
                                .set_probationary_size(p)
                                .set_protected_size(q)
                                .finalize::<K, TV>(),
                            "frombuilder" => SegmentedCache::<K, TV>::from_builder(SegmentedCacheBuilder::new(p, q)),
                            // one setter on a builder that already carries (other) sizes: the untouched size must survive
                            "resetprot" => SegmentedCacheBuilder::new(p, q + 3).set_protected_size(q).finalize::<K, TV>(),
                            "resetprob" => SegmentedCacheBuilder::new(p + 2, q).set_probationary_size(p).finalize::<K, TV>(),
                            _ => SegmentedCache::<K, TV>::new(p, q),
                        };
                        r.map(|c| SlruComp { c }).map_err(|e| errname(&format!("{:?}", e)))
                    },
                    case,
                    out,
                )
            } else {
                drive(
                    || {
                        // `ord=1`: the type-changing hasher setters run BEFORE the value setters, `ord=0` after them: a setter
                        // that rebuilds the builder must carry every field over
                        (if case.num("ord") == 1 {
                            SegmentedCacheBuilder::default()
                                .set_probationary_hasher(hasher_of(case))
                                .set_protected_hasher(hasher_of(case))
                                .set_probationary_size(p)
                                .set_protected_size(q)
                                .finalize::<K, TV>()
                        } else {
                            SegmentedCacheBuilder::default()
                                .set_probationary_size(p)
                                .set_protected_size(q)
                                .set_probationary_hasher(hasher_of(case))
                                .set_protected_hasher(hasher_of(case))
                                .finalize::<K, TV>()
                        })
                            .map(|c| SlruComp { c })
                            .map_err(|e| errname(&format!("{:?}", e)))
                    },
                    case,
                    out,
                )
            }
        }
        "twoq" => {
            let size = case.num("size") as usize;
            let (rr, gr) = (case.f64bits("rr"), case.f64bits("gr"));
            if default_hasher {
                let via = case.get("via").unwrap_or("params").to_string();
                drive(
                    || {
                        let r = match via.as_str() {
                            // the generator only uses these three with the default value of the missing ratio(s)
                            "new" => TwoQueueCache::<K, TV>::new(size),
                            "recent" => TwoQueueCache::<K, TV>::with_recent_ratio(size, rr),
                            "ghost" => TwoQueueCache::<K, TV>::with_ghost_ratio(size, gr),
                            "builder" => TwoQueueCacheBuilder::new(size)
                                .set_recent_ratio(rr)
                                .set_ghost_ratio(gr)
                                .finalize::<K, TV>(),
                            "statbuilder" => TwoQueueCache::<K, TV>::builder(size)
                                .set_ghost_ratio(gr)
                                .set_recent_ratio(rr)
                                .finalize::<K, TV>(),
                            "setters" => TwoQueueCacheBuilder::default()
                                .set_recent_ratio(rr)
                                .set_size(size)
                                .set_ghost_ratio(gr)
                                .finalize::<K, TV>(),
                            "frombuilder" => TwoQueueCache::<K, TV>::from_builder(
                                TwoQueueCacheBuilder::new(size).set_recent_ratio(rr).set_ghost_ratio(gr),
                            ),
                            _ => TwoQueueCache::<K, TV>::with_2q_parameters(size, rr, gr),
                        };
                        r.map(|c| TwoQComp { c }).map_err(|e| errname(&format!("{:?}", e)))
                    },
                    case,
                    out,
                )
            } else {
                drive(
                    || {
                        (if case.num("ord") == 1 {
                            TwoQueueCacheBuilder::default()
                                .set_recent_hasher(hasher_of(case))
                                .set_frequent_hasher(hasher_of(case))
                                .set_ghost_hasher(hasher_of(case))
                                .set_size(size)
                                .set_recent_ratio(rr)
                                .set_ghost_ratio(gr)
                                .finalize::<K, TV>()
                        } else {
                            TwoQueueCacheBuilder::new(size)
                                .set_recent_ratio(rr)
                                .set_ghost_ratio(gr)
                                .set_recent_hasher(hasher_of(case))
                                .set_frequent_hasher(hasher_of(case))
                                .set_ghost_hasher(hasher_of(case))
                                .finalize::<K, TV>()
                        })
                            .map(|c| TwoQComp { c })
                            .map_err(|e| errname(&format!("{:?}", e)))
                    },
                    case,
                    out,
                )
            }
        }
        "arc" => {
            let size = case.num("size") as usize;
            if default_hasher {
                let via = case.get("via").unwrap_or("new").to_string();
                drive(
                    || {
                        let r = match via.as_str() {
                            "builder" => AdaptiveCacheBuilder::new(size).finalize::<K, TV>(),
                            "statbuilder" => AdaptiveCache::<K, TV>::builder(size).finalize::<K, TV>(),
                            "setters" => AdaptiveCacheBuilder::default().set_size(size).finalize::<K, TV>(),
                            "frombuilder" => AdaptiveCache::<K, TV>::from_builder(AdaptiveCacheBuilder::new(size)),
                            _ => AdaptiveCache::<K, TV>::new(size),
                        };
                        r.map(|c| ArcComp { c }).map_err(|e| errname(&format!("{:?}", e)))
                    },
                    case,
                    out,
                )
            } else {
                drive(
                    || {
                        (if case.num("ord") == 1 {
                            AdaptiveCacheBuilder::default()
                                .set_recent_hasher(hasher_of(case))
                                .set_frequent_hasher(hasher_of(case))
                                .set_recent_evict_hasher(hasher_of(case))
                                .set_frequent_evict_hasher(hasher_of(case))
                                .set_size(size)
                                .finalize::<K, TV>()
                        } else {
                            AdaptiveCacheBuilder::new(size)
                                .set_recent_hasher(hasher_of(case))
                                .set_frequent_hasher(hasher_of(case))
                                .set_recent_evict_hasher(hasher_of(case))
                                .set_frequent_evict_hasher(hasher_of(case))
                                .finalize::<K, TV>()
                        })
                            .map(|c| ArcComp { c })
                            .map_err(|e| errname(&format!("{:?}", e)))
                    },
                    case,
                    out,
                )
            }
        }
        "wtinylfu" => {
            let (w, q, p, samples) = (
                case.num("wcap") as usize,
                case.num("qcap") as usize,
                case.num("pcap") as usize,
                case.num("samples") as usize,
            );
            let fp = case.f64bits("fp");
            let h = if default_hasher { VH::parse("random") } else { hasher_of(case) };
            drive(
                || {
                    let table: HashMap<u64, u64> = case.kh.iter().cloned().collect();
                    let kh = TableKH { table: Rc::new(table) };
                    (match case.num("ord") {
                        // value setters first, then every type-changing hasher setter
                        1 => WTinyLFUCacheBuilder::<K>::default()
                            .set_window_cache_size(w)
                            .set_protected_cache_size(q)
                            .set_probationary_cache_size(p)
                            .set_samples(samples)
                            .set_false_positive_ratio(fp)
                            .set_key_hasher(kh)
                            .set_window_hasher(h.clone())
                            .set_protected_hasher(h.clone())
                            .set_probationary_hasher(h.clone())
                            .finalize::<TV>(),
                        // interleaved
                        2 => WTinyLFUCacheBuilder::<K>::new(w, q, p, samples)
                            .set_probationary_hasher(h.clone())
                            .set_false_positive_ratio(fp)
                            .set_protected_hasher(h.clone())
                            .set_window_hasher(h.clone())
                            .set_key_hasher(kh)
                            .finalize::<TV>(),
                        _ => WTinyLFUCacheBuilder::<K, TableKH, VH, VH, VH>::with_hashers(kh, h.clone(), h.clone(), h.clone())
                            .set_window_cache_size(w)
                            .set_protected_cache_size(q)
                            .set_probationary_cache_size(p)
                            .set_samples(samples)
                            .set_false_positive_ratio(fp)
                            .finalize::<TV>(),
                    })
                        .map(|c| {
                            let table2: HashMap<u64, u64> = case.kh.iter().cloned().collect();
                            let other = WTinyLFUCacheBuilder::<K, TableKH, VH, VH, VH>::with_hashers(
                                TableKH { table: Rc::new(table2) },
                                h.clone(),
                                h.clone(),
                                h.clone(),
                            )
                            .set_window_cache_size(w + 1)
                            .set_protected_cache_size(q + 2)
                            .set_probationary_cache_size(p + 1)
                            .set_samples(samples.saturating_mul(5).saturating_add(3).min(1 << 20))
                            .set_false_positive_ratio(0.02)
                            .finalize::<TV>()
                            .ok();
                            WtComp { c, other }
                        })
                        .map_err(|e| errname(&format!("{:?}", e)))
                },
                case,
                out,
            )
        }
        "putresult" => drive(|| Ok(PrComp), case, out),
        "wtsizes" => {
            let (w, q, p, samples) = (
                case.num("wcap") as usize,
                case.num("qcap") as usize,
                case.num("pcap") as usize,
                case.num("samples") as usize,
            );
            let via = case.get("via").unwrap_or("withsizes").to_string();
            drive(
                || {
                    let r = match via.as_str() {
                        "builder" => WTinyLFUCache::<u64, u64>::builder()
                            .set_probationary_cache_size(p)
                            .set_samples(samples)
                            .set_protected_cache_size(q)
                            .set_window_cache_size(w)
                            .finalize::<u64>(),
                        "buildernew" => WTinyLFUCacheBuilder::<u64>::new(w, q, p, samples).finalize::<u64>(),
                        "frombuilder" => {
                            WTinyLFUCache::<u64, u64>::from_builder(WTinyLFUCacheBuilder::<u64>::new(w, q, p, samples))
                        }
                        // `new(size, samples)`: the header carries the sizes the documented split yields
                        "new" => WTinyLFUCache::<u64, u64>::new(case.num("size") as usize, samples),
                        _ => WTinyLFUCache::<u64, u64>::with_sizes(w, q, p, samples),
                    };
                    r.map(|c| WtSizesComp { c }).map_err(|e| errname(&format!("{:?}", e)))
                },
                case,
                out,
            )
        }
        other => {
            writeln!(out, "{} => BAD unknown component {}", case.head, other).unwrap();
            writeln!(out, "end").unwrap();
        }
    }
}

/// `InvalidSize(0)` -> `InvalidSize`; Display strings of the LFU errors -> variant names
fn errname(dbg: &str) -> String {
    let d = dbg.to_string();
    if d.starts_with("invalid number of samples") {
        return "InvalidSamples".into();
    }
    if d.starts_with("invalid count main sketch width") {
        return "InvalidCountMinWidth".into();
    }
    if d.starts_with("invalid window cache size") {
        return "InvalidWindowCacheSize".into();
    }
    if d.starts_with("invalid probationary cache size") {
        return "InvalidProbationaryCacheSize".into();
    }
    if d.starts_with("invalid protected cache size") {
        return "InvalidProtectedCacheSize".into();
    }
    if d.starts_with("invalid false positive ratio") {
        return "InvalidFalsePositiveRatio".into();
    }
    d.split('(').next().unwrap_or("").to_string()
}

fn run_case(case: &Case, out: &mut impl Write) {
    match case.comp.as_str() {
        "tinylfu" => {
            let (size, samples) = (case.num("size") as usize, case.num("samples") as usize);
            let fp = case.f64bits("fp");
            drive(
                || {
                    TinyLFU::<u64>::new(size, samples, fp)
                        .map(|t| TinyComp { t })
                        .map_err(|e| errname(&format!("{:?}", e)))
                },
                case,
                out,
            )
        }
        "sampled" => {
            let max: i64 = case.get("max").and_then(|s| s.parse().ok()).unwrap_or(0);
            let samples = case.num("samples") as usize;
            drive(
                || Ok(SamComp { s: SampledLFU::<u64>::with_samples(max, samples) }),
                case,
                out,
            )
        }
        _ => match case.get("keys").unwrap_or("u64") {
            "str" => run_keyed::<String>(case, out),
            "trk" => run_keyed::<TK>(case, out),
            _ => run_keyed::<u64>(case, out),
        },
    }
}

fn main() {
    std::panic::set_hook(Box::new(|_| {}));
    let mut input = String::new();
    let args: Vec<String> = std::env::args().collect();
    if args.len() > 1 {
        input = std::fs::read_to_string(&args[1]).expect("read script");
    } else {
        for l in std::io::stdin().lock().lines() {
            input.push_str(&l.unwrap());
            input.push('\n');
        }
    }
    let cases = parse_cases(&input);
    // warm up lazily initialised thread-locals so that they do not count as a case's heap growth
    {
        reset_tracking();
        let _k = TK::mk(0);
        let _v = TV::new(0);
        let _ = VH::parse("random");
        let _ = in_call(|| 0);
        let _ = take_drops();
        let _ = take_cbs();
    }
    let stdout = std::io::stdout();
    let mut out = std::io::BufWriter::with_capacity(1 << 20, stdout.lock());
    writeln!(out, "# caches-verif trace v1").unwrap();
    for c in &cases {
        run_case(c, &mut out);
        out.flush().unwrap();
    }
}
