//! Panic-injection executor (C18). For every case of the script it first counts the calls the
//! library makes into user code (Hash, Eq, Clone, Drop of keys and values, BuildHasher, eviction
//! callback), then re-runs the case once per call index i with a panic injected at the i-th call.
//! After the unwind the run CONTINUES (later operations may panic, never crash), the structure of
//! every list is audited with pointer checking after each operation, and the cache is dropped.
//! Freed blocks are quarantined and poisoned, every tracked object carries a serial number.

use caches::{
    AdaptiveCacheBuilder, Cache, RawLRU, ResizableCache, SegmentedCacheBuilder, TwoQueueCacheBuilder,
    WTinyLFUCacheBuilder,
};
use caches::lfu::KeyHasher;
use cvh::*;
use std::borrow::Borrow;
use std::hash::Hash;
use std::io::{BufRead, Write};
use std::panic::{catch_unwind, AssertUnwindSafe};

#[global_allocator]
static ALLOC: CountingAlloc = CountingAlloc;

type Raw = RawLRU<FK, FV, FCb, FH>;
type RawN<S> = RawLRU<FK, FV, caches::DefaultEvictCallback, S>;

fn weak_audit<E, S>(name: &str, c: &RawLRU<FK, FV, E, S>) -> Result<(), String> {
    let a = c.verif_weak_audit(1 << 16, &is_live_block);
    if let Some(p) = a.problem {
        return Err(format!("{}:{}", name, p));
    }
    let mut bwd = a.backward.clone();
    bwd.reverse();
    if a.forward != bwd {
        return Err(format!("{}:forward!=reverse(backward)", name));
    }
    let mut f2 = a.forward.clone();
    f2.sort_unstable();
    let n0 = f2.len();
    f2.dedup();
    if f2.len() != n0 {
        return Err(format!("{}:node-twice-in-chain", name));
    }
    for (node, kref, keyaddr) in &a.index {
        if kref != keyaddr {
            return Err(format!("{}:keyref-not-own-node", name));
        }
        if f2.binary_search(node).is_err() {
            return Err(format!("{}:indexed-node-not-in-chain", name));
        }
    }
    // the countdown iterators take `map.len()` steps through the chain
    if a.map_len > a.forward.len() {
        return Err(format!("{}:map_len={}>chain={}", name, a.map_len, a.forward.len()));
    }
    // every node of the chain is live memory (checked above), so its payload can be looked at: a key or value that
    // was already dropped must not be reachable through the list (iterators and peeks would hand it out)
    let full = c.verif_audit(1 << 16);
    for (_, k, v) in &full.forward {
        if !k.is_alive() {
            return Err(format!("{}:reachable-key-already-dropped(k{})", name, k.n));
        }
        if !v.is_alive() {
            return Err(format!("{}:reachable-value-already-dropped(k{})", name, k.n));
        }
    }
    Ok(())
}

#[derive(Clone)]
struct IdKH;
impl KeyHasher<FK> for IdKH {
    fn hash_key<Q>(&self, key: &Q) -> u64
    where
        FK: Borrow<Q>,
        Q: Hash + Eq + ?Sized,
    {
        tick("KeyHasher::hash_key");
        key_number(key).wrapping_mul(0x9E3779B97F4A7C15)
    }
}

enum Obj {
    Raw(Raw),
    Slru(caches::SegmentedCache<FK, FV, FH, FH>),
    TwoQ(caches::TwoQueueCache<FK, FV, FH, FH, FH>),
    Arc(caches::AdaptiveCache<FK, FV, FH, FH, FH, FH>),
    Wt(caches::WTinyLFUCache<FK, FV, IdKH, FH, FH, FH>),
}

fn cache_op<C: Cache<FK, FV>>(c: &mut C, op: &str, a: &[u64]) -> bool {
    match (op, a) {
        ("put", [k, v]) => {
            let (key, val) = (FK::mk(*k), FV::new(*v));
            let _ = in_call(|| c.put(key, val));
        }
        ("get", [k]) => {
            let _ = FK::with_q(*k, |q| in_call(|| c.get(q)).map(|v| v.n));
        }
        ("getmut", [k, _]) => {
            let _ = FK::with_q(*k, |q| in_call(|| c.get_mut(q)).map(|v| v.n));
        }
        ("peek", [k]) => {
            let _ = FK::with_q(*k, |q| in_call(|| c.peek(q)).map(|v| v.n));
        }
        ("peekmut", [k, _]) => {
            let _ = FK::with_q(*k, |q| in_call(|| c.peek_mut(q)).map(|v| v.n));
        }
        ("contains", [k]) => {
            let _ = FK::with_q(*k, |q| in_call(|| c.contains(q)));
        }
        ("remove", [k]) => {
            let _ = FK::with_q(*k, |q| in_call(|| c.remove(q)));
        }
        ("purge", []) => in_call(|| c.purge()),
        ("len", []) | ("cap", []) | ("isempty", []) => {
            let _ = (c.len(), c.cap(), c.is_empty());
        }
        _ => return false,
    }
    true
}

impl Obj {
    fn op(&mut self, line: &str) {
        let toks: Vec<&str> = line.split_whitespace().collect();
        let op = toks[0];
        let a: Vec<u64> = toks[1..].iter().filter_map(|s| s.parse().ok()).collect();
        match self {
            Obj::Raw(c) => {
                if cache_op(c, op, &a) {
                    return;
                }
                match (op, &a[..]) {
                    ("resize", [n]) => {
                        let _ = in_call(|| c.resize(*n as usize));
                    }
                    ("removelru", []) => {
                        let _ = in_call(|| c.remove_lru());
                    }
                    ("getlru", []) => {
                        let _ = in_call(|| c.get_lru().map(|(k, v)| (k.n, v.n)));
                    }
                    ("peekorput", [k, v]) => {
                        let (key, val) = (FK::mk(*k), FV::new(*v));
                        let _ = in_call(|| {
                            let (a, b) = c.peek_or_put(key, val);
                            (a.map(|v| v.n), b.is_some())
                        });
                    }
                    ("containsorput", [k, v]) => {
                        let (key, val) = (FK::mk(*k), FV::new(*v));
                        let _ = in_call(|| c.contains_or_put(key, val).0);
                    }
                    ("clone", []) => {
                        let cl = in_call(|| c.clone());
                        in_call(|| drop(cl));
                    }
                    ("iter", _) => {
                        // safe iteration reads every entry through the countdown iterators
                        let _s: u64 = c.iter().map(|(k, v)| k.n + v.n).sum();
                        let _t: u64 = c.iter_lru().map(|(k, v)| k.n + v.n).sum();
                    }
                    _ => {}
                }
            }
            Obj::Slru(c) => {
                if cache_op(c, op, &a) {
                    return;
                }
                match (op, &a[..]) {
                    ("putprotected", [k, v]) => {
                        let (key, val) = (FK::mk(*k), FV::new(*v));
                        let _ = in_call(|| c.put_protected(key, val));
                    }
                    ("removelruprob", []) => {
                        let _ = in_call(|| c.remove_lru_from_probationary());
                    }
                    ("removelruprot", []) => {
                        let _ = in_call(|| c.remove_lru_from_protected());
                    }
                    ("clone", []) => {
                        let cl = in_call(|| c.clone());
                        in_call(|| drop(cl));
                    }
                    _ => {}
                }
            }
            Obj::TwoQ(c) => {
                if cache_op(c, op, &a) {
                    return;
                }
                if op == "iter" {
                    let _s: u64 = c.recent_iter().chain(c.frequent_iter()).chain(c.ghost_iter()).map(|(k, v)| k.n + v.n).sum();
                }
            }
            Obj::Arc(c) => {
                if cache_op(c, op, &a) {
                    return;
                }
                if op == "iter" {
                    let _s: u64 = c
                        .recent_iter()
                        .chain(c.frequent_iter())
                        .chain(c.recent_evict_iter())
                        .chain(c.frequent_evict_iter())
                        .map(|(k, v)| k.n + v.n)
                        .sum();
                }
            }
            Obj::Wt(c) => {
                if cache_op(c, op, &a) {
                    return;
                }
                if op == "clone" {
                    let cl = in_call(|| c.clone());
                    in_call(|| drop(cl));
                }
            }
        }
    }

    fn audit(&self) -> Result<(), String> {
        match self {
            Obj::Raw(c) => weak_audit("lru", c),
            Obj::Slru(c) => {
                let (p, q) = c.verif_segments();
                weak_audit("prob", p).and(weak_audit("prot", q))
            }
            Obj::TwoQ(c) => {
                let (r, f, g, _) = c.verif_lists();
                weak_audit("recent", r).and(weak_audit("frequent", f)).and(weak_audit("ghost", g))
            }
            Obj::Arc(c) => {
                let (t1, b1, t2, b2) = c.verif_lists();
                weak_audit("t1", t1).and(weak_audit("b1", b1)).and(weak_audit("t2", t2)).and(weak_audit("b2", b2))
            }
            Obj::Wt(c) => {
                let (w, m, _) = c.verif_parts();
                let (p, q) = m.verif_segments();
                weak_audit("window", w).and(weak_audit("prob", p)).and(weak_audit("prot", q))
            }
        }
    }
}

/// chain (MRU first, `key:value`) and sorted index keys of a RawLRU whose pointers have just been audited
fn snapshot(c: &Raw) -> (String, String) {
    let a = c.verif_audit(1 << 16);
    let chain: Vec<String> = a.forward.iter().map(|(_, k, v)| format!("{}:{}", k.n, v.n)).collect();
    let mut idx: Vec<u64> = Vec::new();
    for (node, _, _) in &a.index {
        if let Some((_, k, _)) = a.forward.iter().find(|(n, _, _)| n == node) {
            idx.push(k.n);
        }
    }
    idx.sort_unstable();
    let idx: Vec<String> = idx.iter().map(|k| k.to_string()).collect();
    (format!("[{}]", chain.join(" ")), format!("[{}]", idx.join(" ")))
}

/// one list of a composite cache: chain (MRU first, `key:value`) and the chain positions the index points at
fn snap_list<E, S>(c: &RawLRU<FK, FV, E, S>) -> String {
    let a = c.verif_audit(1 << 16);
    let chain: Vec<String> = a.forward.iter().map(|(_, k, v)| format!("{}:{}", k.n, v.n)).collect();
    let mut pos: Vec<usize> = Vec::new();
    for (node, _, _) in &a.index {
        if let Some(p) = a.forward.iter().position(|(n, _, _)| n == node) {
            pos.push(p);
        }
    }
    pos.sort_unstable();
    let pos: Vec<String> = pos.iter().map(|k| k.to_string()).collect();
    format!("[{}]@[{}]", chain.join(" "), pos.join(" "))
}

impl Obj {
    /// (caps, params, lists) of a composite cache in the list numbering of lean/Caches/Model/AbortG.lean
    fn snap_composite(&self) -> Option<(String, String, String)> {
        match self {
            Obj::Slru(c) => {
                let (p, q) = c.verif_segments();
                Some((format!("{},{}", p.cap(), q.cap()), "0,0,0".into(), format!("{};{}", snap_list(p), snap_list(q))))
            }
            Obj::TwoQ(c) => {
                let (r, f, g, rs) = c.verif_lists();
                Some((
                    format!("{},{},{}", r.cap(), f.cap(), g.cap()),
                    format!("{},{},0", c.cap(), rs),
                    format!("{};{};{}", snap_list(r), snap_list(f), snap_list(g)),
                ))
            }
            Obj::Arc(c) => {
                let (t1, b1, t2, b2) = c.verif_lists();
                Some((
                    format!("{},{},{},{}", t1.cap(), t2.cap(), b1.cap(), b2.cap()),
                    format!("{},0,{}", c.cap(), c.partition()),
                    format!("{};{};{};{}", snap_list(t1), snap_list(t2), snap_list(b1), snap_list(b2)),
                ))
            }
            Obj::Wt(c) => {
                let (w, m, _) = c.verif_parts();
                let (p, q) = m.verif_segments();
                Some((
                    format!("{},{},{}", p.cap(), q.cap(), w.cap()),
                    "0,0,0".into(),
                    format!("{};{};{}", snap_list(p), snap_list(q), snap_list(w)),
                ))
            }
            _ => None,
        }
    }
    fn comp_name(&self) -> &'static str {
        match self {
            Obj::Raw(_) => "rawlru",
            Obj::Slru(_) => "slru",
            Obj::TwoQ(_) => "twoq",
            Obj::Arc(_) => "arc",
            Obj::Wt(_) => "wtinylfu",
        }
    }
}

struct Case {
    head: String,
    comp: String,
    params: std::collections::HashMap<String, String>,
    ops: Vec<String>,
}

fn num(c: &Case, k: &str) -> usize {
    c.params.get(k).and_then(|s| s.parse().ok()).unwrap_or(0)
}
fn f64bits(c: &Case, k: &str) -> f64 {
    f64::from_bits(u64::from_str_radix(c.params.get(k).map(|s| s.as_str()).unwrap_or("0"), 16).unwrap_or(0))
}

fn construct(c: &Case) -> Option<Obj> {
    match c.comp.as_str() {
        "rawlru" => RawLRU::with_on_evict_cb_and_hasher(num(c, "cap"), FCb, FH).ok().map(Obj::Raw),
        "slru" => SegmentedCacheBuilder::new(num(c, "pcap"), num(c, "qcap"))
            .set_probationary_hasher(FH)
            .set_protected_hasher(FH)
            .finalize()
            .ok()
            .map(Obj::Slru),
        "twoq" => TwoQueueCacheBuilder::new(num(c, "size"))
            .set_recent_ratio(f64bits(c, "rr"))
            .set_ghost_ratio(f64bits(c, "gr"))
            .set_recent_hasher(FH)
            .set_frequent_hasher(FH)
            .set_ghost_hasher(FH)
            .finalize()
            .ok()
            .map(Obj::TwoQ),
        "arc" => AdaptiveCacheBuilder::new(num(c, "size"))
            .set_recent_hasher(FH)
            .set_frequent_hasher(FH)
            .set_recent_evict_hasher(FH)
            .set_frequent_evict_hasher(FH)
            .finalize()
            .ok()
            .map(Obj::Arc),
        "wtinylfu" => WTinyLFUCacheBuilder::<FK, IdKH, FH, FH, FH>::with_hashers(IdKH, FH, FH, FH)
            .set_window_cache_size(num(c, "wcap"))
            .set_protected_cache_size(num(c, "qcap"))
            .set_probationary_cache_size(num(c, "pcap"))
            .set_samples(num(c, "samples"))
            .set_false_positive_ratio(f64bits(c, "fp"))
            .finalize()
            .ok()
            .map(Obj::Wt),
        _ => None,
    }
}

/// one run of the case with a panic injected at the `target`-th user call (0 = never).
/// Returns (ticks made, site that fired, first problem)
fn run(case: &Case, target: u64) -> (u64, Option<&'static str>, Option<String>, Option<String>) {
    release_quarantine();
    reset_tracking();
    TICKS.with(|c| c.set(0));
    TARGET.with(|c| c.set(target));
    FIRED.with(|c| c.set(None));
    let mut problem: Option<String> = None;
    let mut inj: Option<String> = None;
    let built = catch_unwind(AssertUnwindSafe(|| in_call(|| construct(case))));
    let mut obj = match built {
        Ok(Some(o)) => o,
        _ => return (TICKS.with(|c| c.get()), FIRED.with(|c| c.get()), None, None),
    };
    // for a plain LRU the state before and after the operation a panic interrupts is recorded, to be compared with
    // the abort-semantics model (lean/Caches/Model/Abort.lean) by `abortcheck`
    let mut pre: Option<(String, String)> = match &obj {
        Obj::Raw(c) if target != 0 => Some(snapshot(c)),
        _ => None,
    };
    let mut precap: usize = match &obj {
        Obj::Raw(c) => c.cap(),
        _ => 0,
    };
    // the same for the composite caches (model: lean/Caches/Model/AbortG.lean); the record goes out as `INJC`
    let mut cpre: Option<(String, String, String)> = if target != 0 { obj.snap_composite() } else { None };
    for line in &case.ops {
        let fired_before = FIRED.with(|c| c.get()).is_some();
        let _ = take_drops();
        let _ = catch_unwind(AssertUnwindSafe(|| obj.op(line)));
        // keys and values dropped while the library (or the unwind through it) was running this operation
        let dropped = take_drops();
        match catch_unwind(AssertUnwindSafe(|| obj.audit())) {
            Ok(Ok(())) => {
                if let (Some(p), false) = (&cpre, fired_before) {
                    let fired_now = FIRED.with(|f| f.get());
                    if let Some(post) = obj.snap_composite() {
                        if let Some(site) = fired_now {
                            inj = Some(format!(
                                "C comp={} | caps={} | par={} | site={} | op={} | pre={} | post={} | ppost={} | dr={}",
                                obj.comp_name(),
                                p.0,
                                p.1,
                                site.replace(' ', "_"),
                                line,
                                p.2,
                                post.2,
                                post.1,
                                dropped
                            ));
                            cpre = None;
                        } else {
                            cpre = Some(post);
                        }
                    }
                }
                if let (Obj::Raw(c), Some(p)) = (&obj, &pre) {
                    let fired_now = FIRED.with(|f| f.get());
                    if !fired_before {
                        let post = snapshot(c);
                        if let Some(site) = fired_now {
                            inj = Some(format!(
                                "cap={} precap={} len={} | site={} | op={} | pre={} idx={} | post={} idx={} | dr={}",
                                c.cap(),
                                precap,
                                c.len(),
                                site.replace(' ', "_"),
                                line,
                                p.0,
                                p.1,
                                post.0,
                                post.1,
                                dropped
                            ));
                            pre = None;
                        } else {
                            pre = Some(post);
                            precap = c.cap();
                        }
                    }
                }
            }
            Ok(Err(e)) => {
                if problem.is_none() {
                    problem = Some(format!("after `{}`: {}", line, e));
                }
            }
            Err(_) => {
                if problem.is_none() {
                    problem = Some(format!("after `{}`: audit panicked", line));
                }
            }
        }
        if double_count() > 0 && problem.is_none() {
            problem = Some(format!("after `{}`: {} object(s) dropped twice", line, double_count()));
        }
    }
    // dropping the cache must be safe as well (it may leak after a panic, never double drop)
    let _ = catch_unwind(AssertUnwindSafe(|| in_call(|| drop(obj))));
    if double_count() > 0 && problem.is_none() {
        problem = Some(format!("at drop: {} object(s) dropped twice", double_count()));
    }
    if target == 0 && alive_count() != 0 && problem.is_none() {
        problem = Some(format!("no panic injected but {} object(s) leaked", alive_count()));
    }
    (TICKS.with(|c| c.get()), FIRED.with(|c| c.get()), problem, inj)
}

fn main() {
    std::panic::set_hook(Box::new(|_| {}));
    let mut cases: Vec<Case> = Vec::new();
    for l in std::io::stdin().lock().lines() {
        let l = l.unwrap();
        let line = l.split(" => ").next().unwrap().trim().to_string();
        if line.is_empty() || line.starts_with('#') || line.starts_with("kh ") || line.starts_with("env ") {
            continue;
        }
        let toks: Vec<&str> = line.split_whitespace().collect();
        if toks[0] == "case" {
            let mut params = std::collections::HashMap::new();
            for t in &toks[3..] {
                if let Some((k, v)) = t.split_once('=') {
                    params.insert(k.to_string(), v.to_string());
                }
            }
            cases.push(Case { head: line.clone(), comp: toks[2].to_string(), params, ops: Vec::new() });
        } else if toks[0] == "end" {
        } else if let Some(c) = cases.last_mut() {
            c.ops.push(line);
        }
    }
    TRACK.store(1, std::sync::atomic::Ordering::Relaxed);
    let stdout = std::io::stdout();
    let mut out = stdout.lock();
    for case in &cases {
        let (n, _, p0, _) = run(case, 0);
        if let Some(p) = p0 {
            writeln!(out, "FAIL {} | i=0 site=none | {}", case.head, p).unwrap();
        }
        let mut fired = 0u64;
        let mut sites: std::collections::BTreeMap<&'static str, u64> = Default::default();
        // `stride=K` in the case header: inject at every K-th call only (long soak scripts)
        let stride = num(case, "stride").max(1) as u64;
        let first = 1 + (num(case, "phase") as u64 % stride);
        for i in (first..=n).step_by(stride as usize) {
            let (_, site, problem, inj) = run(case, i);
            if let Some(r) = inj {
                if let Some(rest) = r.strip_prefix("C ") {
                    writeln!(out, "INJC {} | i={} | {}", case.head, i, rest).unwrap();
                } else {
                    writeln!(out, "INJ {} | i={} | {}", case.head, i, r).unwrap();
                }
            }
            if let Some(s) = site {
                fired += 1;
                *sites.entry(s).or_insert(0) += 1;
            }
            if let Some(p) = problem {
                writeln!(out, "FAIL {} | i={} site={} | {}", case.head, i, site.unwrap_or("none"), p).unwrap();
            }
        }
        let s: Vec<String> = sites.iter().map(|(k, v)| format!("{}:{}", k.replace(' ', "_"), v)).collect();
        writeln!(out, "DONE {} | calls={} fired={} sites={}", case.head, n, fired, s.join(",")).unwrap();
        out.flush().unwrap();
    }
}
