//! C05 probe at the edge of "sizes that fit in memory": count-min sketches wider than 2^32 counters.
//! The rows are allocated zeroed (lazily backed), only a handful of pages are ever touched (the sample size is
//! larger than the number of probes so that no reset ever sweeps the rows; the doorkeeper is sized by it, so keep it small).
//! Prints one line per probe: `bigsketch size=<n> hash=<h> => ok <estimate> | PANIC <msg> | skipped <why>`.
use caches::lfu::TinyLFU;
use std::panic::{catch_unwind, AssertUnwindSafe};

fn probe(size: usize, hashes: &[u64]) {
    let built = catch_unwind(AssertUnwindSafe(|| TinyLFU::<u64>::new(size, 1000, 0.01)));
    let mut t = match built {
        Ok(Ok(t)) => t,
        Ok(Err(e)) => {
            println!("bigsketch size={} => skipped constructor-error {:?}", size, e);
            return;
        }
        Err(_) => {
            println!("bigsketch size={} => PANIC in constructor", size);
            return;
        }
    };
    for &h in hashes {
        let r = catch_unwind(AssertUnwindSafe(|| {
            t.increment_hashed_key(h);
            t.increment_hashed_key(h);
            t.estimate_hashed_key(h)
        }));
        match r {
            Ok(e) => println!("bigsketch size={} hash={:x} => ok {}", size, h, e),
            Err(p) => {
                let msg = p
                    .downcast_ref::<String>()
                    .cloned()
                    .or_else(|| p.downcast_ref::<&str>().map(|s| s.to_string()))
                    .unwrap_or_default();
                println!("bigsketch size={} hash={:x} => PANIC {}", size, h, msg);
                return;
            }
        }
    }
}

fn main() {
    std::panic::set_hook(Box::new(|_| {}));
    // widths just above 2^32: `next_power_of_2` must still give an even number of counters that the mask fits
    let hs: Vec<u64> = vec![
        0,
        u64::MAX,
        (1u64 << 33) - 1,
        (1u64 << 33) - 2,
        (1u64 << 32) - 1,
        1u64 << 32,
        0xdead_beef_cafe_f00d,
    ];
    for size in [(1usize << 32) + 1, (1usize << 32) + 2, (1usize << 32) + (1usize << 20) + 1] {
        probe(size, &hs);
    }
}
