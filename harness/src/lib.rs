//! Shared parts of the correspondence harness: counting allocator, drop-tracked
//! key/value types, selectable hashers, callback logger, text formatting.
//! The executors in `src/bin` drive the REAL `caches` crate (path dependency on /repo).

use std::alloc::{GlobalAlloc, Layout, System};
use std::borrow::Borrow;
use std::cell::{Cell, RefCell};
use std::collections::hash_map::{DefaultHasher, RandomState};
use std::hash::{BuildHasher, Hash, Hasher};
use std::sync::atomic::{AtomicI64, AtomicU64, Ordering};

// ---------------------------------------------------------------------------------------------
// counting allocator
// ---------------------------------------------------------------------------------------------

pub struct CountingAlloc;
pub static LIVE_BYTES: AtomicI64 = AtomicI64::new(0);
pub static LIVE_BLOCKS: AtomicI64 = AtomicI64::new(0);
/// when non-zero every allocation is preceded by a throw-away allocation of this many bytes that is
/// kept alive (address perturbation for C17); leaked on purpose, not counted.
pub static PAD: AtomicU64 = AtomicU64::new(0);

/// when set, live blocks are tracked in `LIVE_TABLE` and freed blocks are poisoned and never reused
/// (quarantine): a dangling pointer then always points at poisoned, recognisably dead memory
pub static TRACK: AtomicU64 = AtomicU64::new(0);
const TABLE_BITS: usize = 20;
static LIVE_TABLE: [std::sync::atomic::AtomicUsize; 1 << TABLE_BITS] =
    [const { std::sync::atomic::AtomicUsize::new(0) }; 1 << TABLE_BITS];

/// quarantined blocks of the current run (released at the start of the next run so that long soak scripts fit in memory)
const QMAX: usize = 1 << 21;
static QPTR: [std::sync::atomic::AtomicUsize; QMAX] = [const { std::sync::atomic::AtomicUsize::new(0) }; QMAX];
static QSIZE: [std::sync::atomic::AtomicUsize; QMAX] = [const { std::sync::atomic::AtomicUsize::new(0) }; QMAX];
static QALIGN: [std::sync::atomic::AtomicUsize; QMAX] = [const { std::sync::atomic::AtomicUsize::new(0) }; QMAX];
static QLEN: std::sync::atomic::AtomicUsize = std::sync::atomic::AtomicUsize::new(0);

/// give the quarantined (freed, poisoned) blocks back to the system allocator; call only between runs, when no
/// structure of the previous run is referenced any more
static TOMBS: std::sync::atomic::AtomicUsize = std::sync::atomic::AtomicUsize::new(0);

/// rebuild the open-addressing table of live blocks without its tombstones (they only ever accumulate otherwise and
/// a saturated table makes a miss probe forever)
fn compact_live_table() {
    let mut n = 0usize;
    for s in LIVE_TABLE.iter() {
        if s.load(Ordering::Relaxed) > 1 {
            n += 1;
        }
    }
    let mut live: Vec<usize> = Vec::with_capacity(n + 64);
    for s in LIVE_TABLE.iter() {
        let v = s.load(Ordering::Relaxed);
        if v > 1 && live.len() < live.capacity() {
            live.push(v);
        }
    }
    for s in LIVE_TABLE.iter() {
        s.store(0, Ordering::Relaxed);
    }
    for a in &live {
        table_insert(*a);
    }
    TOMBS.store(0, Ordering::Relaxed);
}

pub fn release_quarantine() {
    if TOMBS.load(Ordering::Relaxed) > (1 << (TABLE_BITS - 2)) {
        compact_live_table();
    }
    let n = QLEN.swap(0, Ordering::Relaxed).min(QMAX);
    for i in 0..n {
        let p = QPTR[i].load(Ordering::Relaxed);
        if p != 0 {
            unsafe {
                System.dealloc(
                    p as *mut u8,
                    Layout::from_size_align_unchecked(QSIZE[i].load(Ordering::Relaxed), QALIGN[i].load(Ordering::Relaxed)),
                )
            };
        }
    }
}

fn slot(addr: usize) -> usize {
    (addr >> 3).wrapping_mul(0x9E37_79B9_7F4A_7C15) >> (64 - TABLE_BITS)
}
fn table_insert(addr: usize) {
    let mut i = slot(addr);
    loop {
        let cur = LIVE_TABLE[i].load(Ordering::Relaxed);
        if cur == 0 || cur == 1 {
            LIVE_TABLE[i].store(addr, Ordering::Relaxed);
            return;
        }
        i = (i + 1) & ((1 << TABLE_BITS) - 1);
    }
}
fn table_remove(addr: usize) {
    let mut i = slot(addr);
    loop {
        let cur = LIVE_TABLE[i].load(Ordering::Relaxed);
        if cur == addr {
            LIVE_TABLE[i].store(1, Ordering::Relaxed);
            TOMBS.fetch_add(1, Ordering::Relaxed);
            return;
        }
        if cur == 0 {
            return;
        }
        i = (i + 1) & ((1 << TABLE_BITS) - 1);
    }
}
/// is `addr` the start of a block that is currently allocated (only meaningful while TRACK is set)
pub fn is_live_block(addr: usize) -> bool {
    let mut i = slot(addr);
    loop {
        let cur = LIVE_TABLE[i].load(Ordering::Relaxed);
        if cur == addr {
            return true;
        }
        if cur == 0 {
            return false;
        }
        i = (i + 1) & ((1 << TABLE_BITS) - 1);
    }
}

unsafe impl GlobalAlloc for CountingAlloc {
    unsafe fn alloc(&self, layout: Layout) -> *mut u8 {
        let pad = PAD.load(Ordering::Relaxed);
        if pad != 0 {
            let _ = System.alloc(Layout::from_size_align_unchecked(pad as usize, 8));
        }
        let p = System.alloc(layout);
        if !p.is_null() {
            LIVE_BYTES.fetch_add(layout.size() as i64, Ordering::Relaxed);
            LIVE_BLOCKS.fetch_add(1, Ordering::Relaxed);
            if TRACK.load(Ordering::Relaxed) != 0 {
                table_insert(p as usize);
            }
        }
        p
    }
    unsafe fn dealloc(&self, ptr: *mut u8, layout: Layout) {
        // poison freed memory so that a dangling read shows up as a wrong value
        std::ptr::write_bytes(ptr, 0xDD, layout.size());
        LIVE_BYTES.fetch_sub(layout.size() as i64, Ordering::Relaxed);
        LIVE_BLOCKS.fetch_sub(1, Ordering::Relaxed);
        if TRACK.load(Ordering::Relaxed) != 0 {
            table_remove(ptr as usize);
            // quarantine: not handed out again during this run (released by `release_quarantine` between runs;
            // beyond QMAX blocks per run the block is simply leaked)
            let i = QLEN.fetch_add(1, Ordering::Relaxed);
            if i < QMAX {
                QPTR[i].store(ptr as usize, Ordering::Relaxed);
                QSIZE[i].store(layout.size(), Ordering::Relaxed);
                QALIGN[i].store(layout.align(), Ordering::Relaxed);
            }
            return;
        }
        System.dealloc(ptr, layout)
    }
    unsafe fn realloc(&self, ptr: *mut u8, layout: Layout, new_size: usize) -> *mut u8 {
        if TRACK.load(Ordering::Relaxed) != 0 {
            // allocate-copy-free so that the quarantine also covers reallocation
            let new_layout = Layout::from_size_align_unchecked(new_size, layout.align());
            let p = self.alloc(new_layout);
            if !p.is_null() {
                std::ptr::copy_nonoverlapping(ptr, p, layout.size().min(new_size));
                self.dealloc(ptr, layout);
            }
            return p;
        }
        let p = System.realloc(ptr, layout, new_size);
        if !p.is_null() {
            LIVE_BYTES.fetch_add(new_size as i64 - layout.size() as i64, Ordering::Relaxed);
        }
        p
    }
}

pub fn live() -> (i64, i64) {
    (
        LIVE_BYTES.load(Ordering::Relaxed),
        LIVE_BLOCKS.load(Ordering::Relaxed),
    )
}

// ---------------------------------------------------------------------------------------------
// drop tracking
// ---------------------------------------------------------------------------------------------

thread_local! {
    /// true while a call into the cache is executing: only drops that happen then are the cache's
    pub static IN_CALL: Cell<bool> = const { Cell::new(false) };
    /// (is_key, number) of tracked objects dropped while IN_CALL
    pub static DROPLOG: RefCell<Vec<(bool, u64)>> = RefCell::new(Vec::with_capacity(4096));
    /// callback invocations (key number, value number)
    pub static CBLOG: RefCell<Vec<(u64, u64)>> = RefCell::new(Vec::with_capacity(4096));
    /// serials currently alive
    pub static ALIVE: RefCell<std::collections::HashSet<u64>> = RefCell::new(std::collections::HashSet::with_capacity(1 << 16));
    /// number of drops of a serial that was not alive (double drop / drop of garbage)
    pub static DOUBLE: Cell<u64> = const { Cell::new(0) };
}
static SERIAL: AtomicU64 = AtomicU64::new(1);

fn new_serial() -> u64 {
    let s = SERIAL.fetch_add(1, Ordering::Relaxed);
    ALIVE.with(|a| a.borrow_mut().insert(s));
    s
}

fn note_drop(is_key: bool, n: u64, serial: u64) {
    if serial == 0 {
        return; // probe object made by the harness for a lookup
    }
    let was_alive = ALIVE.with(|a| a.borrow_mut().remove(&serial));
    if !was_alive {
        DOUBLE.with(|d| d.set(d.get() + 1));
    }
    if IN_CALL.with(|c| c.get()) {
        DROPLOG.with(|l| l.borrow_mut().push((is_key, n)));
    }
}

/// is this tracked object still alive (not yet dropped)? serial 0 = harness probe, always fine
pub fn serial_alive(serial: u64) -> bool {
    serial == 0 || ALIVE.with(|a| a.borrow().contains(&serial))
}

pub fn alive_count() -> usize {
    ALIVE.with(|a| a.borrow().len())
}
pub fn double_count() -> u64 {
    DOUBLE.with(|d| d.get())
}
pub fn reset_tracking() {
    ALIVE.with(|a| a.borrow_mut().clear());
    DOUBLE.with(|d| d.set(0));
    DROPLOG.with(|l| l.borrow_mut().clear());
    CBLOG.with(|l| l.borrow_mut().clear());
}

/// run `f` as "a call into the cache": drops inside are attributed to the cache
pub fn in_call<R>(f: impl FnOnce() -> R) -> R {
    IN_CALL.with(|c| c.set(true));
    struct Guard;
    impl Drop for Guard {
        fn drop(&mut self) {
            IN_CALL.with(|c| c.set(false));
        }
    }
    let _g = Guard;
    f()
}

pub fn take_drops() -> String {
    DROPLOG.with(|l| {
        let mut v: Vec<(bool, u64)> = l.borrow_mut().drain(..).collect();
        // keys first, then values, each ascending  (multiset comparison)
        v.sort_by_key(|(is_key, n)| (!*is_key, *n));
        let parts: Vec<String> = v
            .iter()
            .map(|(k, n)| format!("{}{}", if *k { "k" } else { "v" }, n))
            .collect();
        format!("[{}]", parts.join(" "))
    })
}

pub fn take_cbs() -> String {
    CBLOG.with(|l| {
        let items: Vec<(u64, u64)> = l.borrow_mut().drain(..).collect();
        fmt_list(&items)
    })
}

/// drop-tracked value
#[derive(Debug)]
pub struct TV {
    pub n: u64,
    serial: u64,
}
impl TV {
    pub fn new(n: u64) -> Self {
        TV {
            n,
            serial: new_serial(),
        }
    }
}
impl Clone for TV {
    fn clone(&self) -> Self {
        TV::new(self.n)
    }
}
impl Drop for TV {
    fn drop(&mut self) {
        note_drop(false, self.n, self.serial)
    }
}
impl PartialEq for TV {
    fn eq(&self, o: &Self) -> bool {
        self.n == o.n
    }
}

/// drop-tracked key
impl Eq for TV {}
impl Hash for TV {
    fn hash<H: Hasher>(&self, h: &mut H) {
        h.write_u64(self.n)
    }
}
impl PartialOrd for TV {
    fn partial_cmp(&self, o: &Self) -> Option<std::cmp::Ordering> {
        Some(self.cmp(o))
    }
}
impl Ord for TV {
    fn cmp(&self, o: &Self) -> std::cmp::Ordering {
        self.n.cmp(&o.n)
    }
}

#[derive(Debug)]
pub struct TK {
    pub n: u64,
    serial: u64,
}
impl TK {
    pub fn probe(n: u64) -> Self {
        TK { n, serial: 0 }
    }
}
impl Clone for TK {
    fn clone(&self) -> Self {
        TK {
            n: self.n,
            serial: new_serial(),
        }
    }
}
impl Drop for TK {
    fn drop(&mut self) {
        note_drop(true, self.n, self.serial)
    }
}
impl PartialEq for TK {
    fn eq(&self, o: &Self) -> bool {
        self.n == o.n
    }
}
impl Eq for TK {}
impl Hash for TK {
    fn hash<H: Hasher>(&self, h: &mut H) {
        h.write_u64(self.n)
    }
}

// ---------------------------------------------------------------------------------------------
// key kinds
// ---------------------------------------------------------------------------------------------

pub trait KeyKind: Hash + Eq + Clone + Borrow<Self::Q> + 'static {
    type Q: Hash + Eq + ?Sized;
    const TRACKED: bool;
    fn mk(n: u64) -> Self;
    fn num(&self) -> u64;
    fn with_q<R>(n: u64, f: impl FnOnce(&Self::Q) -> R) -> R;
}

impl KeyKind for u64 {
    type Q = u64;
    const TRACKED: bool = false;
    fn mk(n: u64) -> Self {
        n
    }
    fn num(&self) -> u64 {
        *self
    }
    fn with_q<R>(n: u64, f: impl FnOnce(&u64) -> R) -> R {
        f(&n)
    }
}

impl KeyKind for String {
    type Q = str;
    const TRACKED: bool = false;
    fn mk(n: u64) -> Self {
        format!("key-{}", n)
    }
    fn num(&self) -> u64 {
        self[4..].parse().unwrap()
    }
    fn with_q<R>(n: u64, f: impl FnOnce(&str) -> R) -> R {
        let s = format!("key-{}", n);
        f(s.as_str())
    }
}

impl KeyKind for TK {
    type Q = TK;
    const TRACKED: bool = true;
    fn mk(n: u64) -> Self {
        TK {
            n,
            serial: new_serial(),
        }
    }
    fn num(&self) -> u64 {
        self.n
    }
    fn with_q<R>(n: u64, f: impl FnOnce(&TK) -> R) -> R {
        let t = TK::probe(n);
        f(&t)
    }
}

// ---------------------------------------------------------------------------------------------
// hashers
// ---------------------------------------------------------------------------------------------

/// a BuildHasher selectable at run time (so that the hasher is not a monomorphisation axis)
#[derive(Clone)]
pub enum VH {
    Random(RandomState),
    Id,
    Zero,
    Fnv,
}

impl VH {
    pub fn parse(s: &str) -> VH {
        match s {
            "id" => VH::Id,
            "zero" => VH::Zero,
            "fnv" => VH::Fnv,
            _ => VH::Random(RandomState::new()),
        }
    }
}

pub enum VHasher {
    Sip(DefaultHasher),
    Id(u64),
    Zero,
    Fnv(u64),
}

impl BuildHasher for VH {
    type Hasher = VHasher;
    fn build_hasher(&self) -> VHasher {
        match self {
            VH::Random(r) => VHasher::Sip(r.build_hasher()),
            VH::Id => VHasher::Id(0),
            VH::Zero => VHasher::Zero,
            VH::Fnv => VHasher::Fnv(0xcbf29ce484222325),
        }
    }
}

impl Hasher for VHasher {
    fn finish(&self) -> u64 {
        match self {
            VHasher::Sip(h) => h.finish(),
            VHasher::Id(s) => *s,
            VHasher::Zero => 0,
            VHasher::Fnv(s) => *s,
        }
    }
    fn write(&mut self, bytes: &[u8]) {
        match self {
            VHasher::Sip(h) => h.write(bytes),
            VHasher::Id(s) => {
                for b in bytes {
                    *s = s.wrapping_mul(31).wrapping_add(*b as u64);
                }
            }
            VHasher::Zero => {}
            VHasher::Fnv(s) => {
                for b in bytes {
                    *s ^= *b as u64;
                    *s = s.wrapping_mul(0x100000001b3);
                }
            }
        }
    }
    fn write_u64(&mut self, i: u64) {
        match self {
            VHasher::Id(s) => *s = i,
            _ => self.write(&i.to_le_bytes()),
        }
    }
}

/// hasher that recovers the key number from whatever a `KeyKind` writes when hashed
#[derive(Default)]
pub struct CaptureHasher {
    num: Option<u64>,
    bytes: Vec<u8>,
}
impl Hasher for CaptureHasher {
    fn finish(&self) -> u64 {
        if let Some(n) = self.num {
            return n;
        }
        // "key-N" (+ 0xff terminator written by str's Hash)
        let s: String = self
            .bytes
            .iter()
            .filter(|b| b.is_ascii_digit())
            .map(|b| *b as char)
            .collect();
        s.parse().unwrap_or(0)
    }
    fn write(&mut self, bytes: &[u8]) {
        self.bytes.extend_from_slice(bytes)
    }
    fn write_u64(&mut self, i: u64) {
        self.num = Some(i)
    }
    fn write_u8(&mut self, _i: u8) {}
    fn write_usize(&mut self, _i: usize) {}
}

pub fn key_number<Q: Hash + ?Sized>(q: &Q) -> u64 {
    let mut h = CaptureHasher::default();
    q.hash(&mut h);
    h.finish()
}

// ---------------------------------------------------------------------------------------------
// eviction callback that logs (key, value)
// ---------------------------------------------------------------------------------------------

/// logged instead of the key / value when the eviction callback was handed an object that had already been dropped
pub const DEAD_IN_CALLBACK: u64 = 999_999_999_999;

#[derive(Clone, Default)]
pub struct LogCb;

impl caches::OnEvictCallback for LogCb {
    fn on_evict<K, V>(&self, key: &K, val: &V) {
        // `on_evict` is generic without bounds: recover the concrete types the harness uses
        let kn = std::any::type_name::<K>();
        let k = unsafe {
            if kn == std::any::type_name::<u64>() {
                *(key as *const K as *const u64)
            } else if kn == std::any::type_name::<String>() {
                (*(key as *const K as *const String)).num()
            } else if kn == std::any::type_name::<TK>() {
                // the callback must be handed the DEPARTING key: still alive while the callback runs
                let tk = &*(key as *const K as *const TK);
                if serial_alive(tk.serial) {
                    tk.n
                } else {
                    DEAD_IN_CALLBACK
                }
            } else {
                u64::MAX
            }
        };
        let v = unsafe {
            if std::any::type_name::<V>() == std::any::type_name::<TV>() {
                let tv = &*(val as *const V as *const TV);
                if serial_alive(tv.serial) {
                    tv.n
                } else {
                    DEAD_IN_CALLBACK
                }
            } else {
                u64::MAX
            }
        };
        CBLOG.with(|l| l.borrow_mut().push((k, v)));
    }
}

// ---------------------------------------------------------------------------------------------
// formatting (must match Main.lean)
// ---------------------------------------------------------------------------------------------

pub fn fmt_ent(k: u64, v: u64) -> String {
    format!("{}:{}", k, v)
}
/// lists longer than this are printed as `#<len>:<digest>` (same rule in lean/Main.lean): huge caches stay comparable
/// with the model step by step without gigabytes of trace
pub const DIGEST_ABOVE: usize = 96;
pub fn fmt_list(items: &[(u64, u64)]) -> String {
    if items.len() > DIGEST_ABOVE {
        let mut h: u64 = 0;
        for (k, v) in items {
            h = h.wrapping_mul(1_000_003).wrapping_add(k.wrapping_mul(31)).wrapping_add(*v).wrapping_add(1);
        }
        return format!("#{}:{:016x}", items.len(), h);
    }
    let parts: Vec<String> = items.iter().map(|(k, v)| fmt_ent(*k, *v)).collect();
    format!("[{}]", parts.join(" "))
}
pub fn fmt_optv(o: Option<u64>) -> String {
    match o {
        None => "none".into(),
        Some(v) => format!("some {}", v),
    }
}
pub fn fmt_opte(o: Option<(u64, u64)>) -> String {
    match o {
        None => "none".into(),
        Some((k, v)) => format!("some {}", fmt_ent(k, v)),
    }
}
pub fn fmt_put<K: KeyKind>(r: &caches::PutResult<K, TV>) -> String {
    match r {
        caches::PutResult::Put => "Put".into(),
        caches::PutResult::Update(o) => format!("Update({})", o.n),
        caches::PutResult::Evicted { key, value } => {
            format!("Evicted({}:{})", key.num(), value.n)
        }
        caches::PutResult::EvictedAndUpdate { evicted, update } => format!(
            "EvictedAndUpdate({}:{},{})",
            evicted.0.num(),
            evicted.1.n,
            update.n
        ),
    }
}
pub fn fmt_optput<K: KeyKind>(r: &Option<caches::PutResult<K, TV>>) -> String {
    match r {
        None => "none".into(),
        Some(r) => fmt_put(r),
    }
}
pub fn hex_bytes(b: &[u8]) -> String {
    b.iter().map(|x| format!("{:02x}", x)).collect()
}
pub fn hex_words(w: &[u64]) -> String {
    let parts: Vec<String> = w.iter().map(|x| format!("{:016x}", x)).collect();
    parts.join(".")
}

// ---------------------------------------------------------------------------------------------
// fault injection (C18): every call into user code ticks a counter; the TARGET-th call panics
// ---------------------------------------------------------------------------------------------

thread_local! {
    pub static TICKS: Cell<u64> = const { Cell::new(0) };
    pub static TARGET: Cell<u64> = const { Cell::new(0) };
    pub static FIRED: Cell<Option<&'static str>> = const { Cell::new(None) };
}

pub fn tick(site: &'static str) {
    if !IN_CALL.with(|c| c.get()) {
        return; // only calls made BY the library count
    }
    let t = TICKS.with(|c| {
        c.set(c.get() + 1);
        c.get()
    });
    if t == TARGET.with(|c| c.get()) && !std::thread::panicking() {
        FIRED.with(|f| f.set(Some(site)));
        panic!("injected panic in {}", site);
    }
}

/// key whose Hash / Eq / Clone / Drop are fault-injection sites
#[derive(Debug)]
pub struct FK {
    pub n: u64,
    serial: u64,
}
impl FK {
    pub fn probe(n: u64) -> Self {
        FK { n, serial: 0 }
    }
    pub fn is_alive(&self) -> bool {
        serial_alive(self.serial)
    }
}
impl Clone for FK {
    fn clone(&self) -> Self {
        tick("Clone for key");
        FK { n: self.n, serial: new_serial() }
    }
}
impl Drop for FK {
    fn drop(&mut self) {
        note_drop(true, self.n, self.serial);
        if self.serial != 0 {
            tick("Drop for key");
        }
    }
}
impl PartialEq for FK {
    fn eq(&self, o: &Self) -> bool {
        tick("Eq for key");
        self.n == o.n
    }
}
impl Eq for FK {}
impl Hash for FK {
    fn hash<H: Hasher>(&self, h: &mut H) {
        tick("Hash for key");
        h.write_u64(self.n)
    }
}
impl KeyKind for FK {
    type Q = FK;
    const TRACKED: bool = true;
    fn mk(n: u64) -> Self {
        FK { n, serial: new_serial() }
    }
    fn num(&self) -> u64 {
        self.n
    }
    fn with_q<R>(n: u64, f: impl FnOnce(&FK) -> R) -> R {
        let t = FK::probe(n);
        f(&t)
    }
}

/// value whose Clone / Drop are fault-injection sites
#[derive(Debug)]
pub struct FV {
    pub n: u64,
    serial: u64,
}
impl FV {
    pub fn new(n: u64) -> Self {
        FV { n, serial: new_serial() }
    }
    pub fn is_alive(&self) -> bool {
        serial_alive(self.serial)
    }
}
impl Clone for FV {
    fn clone(&self) -> Self {
        tick("Clone for value");
        FV::new(self.n)
    }
}
impl Drop for FV {
    fn drop(&mut self) {
        note_drop(false, self.n, self.serial);
        tick("Drop for value");
    }
}

/// BuildHasher whose `build_hasher` is a fault-injection site
#[derive(Clone, Default)]
pub struct FH;
impl BuildHasher for FH {
    type Hasher = VHasher;
    fn build_hasher(&self) -> VHasher {
        tick("BuildHasher::build_hasher");
        VHasher::Fnv(0xcbf29ce484222325)
    }
}

/// callback that is a fault-injection site
#[derive(Clone, Default)]
pub struct FCb;
impl caches::OnEvictCallback for FCb {
    fn on_evict<K, V>(&self, _key: &K, _val: &V) {
        tick("eviction callback");
    }
}
